#!/usr/bin/env python3-vt
import json, jsonschema, sys, glob
m = json.load(open('/verif/MANIFEST.json'))
jsonschema.validate(m, json.load(open('/root/.vp/MANIFEST.schema.json')))
es = json.load(open('/root/.vp/EVIDENCE.schema.json'))
for c in m['checks']:
    try:
        e = json.load(open(c['evidence_file']))
        jsonschema.validate(e, es)
        assert e['level'] == c['level_claimed']['category'], "level mismatch"
        print(c['property_id'], 'ok', e['tier'], e['coverage'].get('evaluations'), e['coverage'].get('distinct_nontrivial'), 'wall', round(e['wall_s'],1))
    except Exception as ex:
        print(c['property_id'], 'BAD', str(ex)[:300])
print('manifest ok')
