#!/bin/bash
# usage: thorough_sweep.sh [ids...]  - runs the thorough tier of each check in sequence, prints rc and wall time
cd "$(dirname "$0")/.." || exit 2
ids=${@:-C20 C07 C08 C09 C06 C04 C15 C12 C16 C18 C17 C13 C11 C19 C05 C10 C03 C14 C02 C01}
for id in $ids; do s=$(date +%s); ./check $id --tier thorough > thorough-$id.log 2>&1; echo "$id rc=$? t=$(( $(date +%s)-s ))s $(grep -c '^VIOLATION' thorough-$id.log) violations"; grep "tier=" thorough-$id.log | tail -1; done
