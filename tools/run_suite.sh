#!/bin/bash
# Runs the repository's baseline suite (guard off) in a given checkout (default /repo).
# usage: run_suite.sh [dir]   -> prints summary line, exit 0 iff all pass
dir=${1:-/repo}
cd "$dir" || exit 2
export RUSTUP_TOOLCHAIN=stable-x86_64-unknown-linux-gnu CARGO_NET_OFFLINE=true
cargo nextest run --workspace --no-fail-fast --offline 2>&1 | grep -E "Summary|FAIL|error(:|\[)" | head -40
exit ${PIPESTATUS[0]}
