#!/bin/bash
# usage: confirm_seed.sh <worktree> <demo-test-name-or-script>
# Confirms in the scratch worktree: suite passes with the change (demo removed), demo fails with it, demo passes without it.
wt=$1; demo=$2
export RUSTUP_TOOLCHAIN=stable-x86_64-unknown-linux-gnu CARGO_NET_OFFLINE=true CARGO_TARGET_DIR=$wt/target
cd $wt || exit 2
git apply --check -R deliver/patch.diff 2>/dev/null || { git checkout -- src Cargo.toml 2>/dev/null; git apply deliver/patch.diff || { echo "PATCH DOES NOT APPLY"; exit 2; }; }
run_demo() {
  # stdout must be a pipe, not a file: some demonstrations run children under `ulimit -f 0`
  if [[ "$demo" == *.sh ]]; then bash "$demo" 2>&1 | cat >/tmp/demo.$$.log; rc=${PIPESTATUS[0]}; else cargo test --offline --test "$demo" 2>&1 | cat >/tmp/demo.$$.log; rc=${PIPESTATUS[0]}; fi
  echo $rc
}
echo "== demo with change: exit $(run_demo)  (expected non-zero)"; tail -3 /tmp/demo.$$.log
mkdir -p /tmp/demo-hold.$$; [ -d tests ] && mv tests /tmp/demo-hold.$$/
echo "== suite with change:"; cargo nextest run --workspace --no-fail-fast --offline 2>&1 | grep -E "Summary|FAIL" | head -5
[ -d /tmp/demo-hold.$$/tests ] && mv /tmp/demo-hold.$$/tests .
git apply -R deliver/patch.diff
echo "== demo without change: exit $(run_demo)  (expected 0)"; tail -3 /tmp/demo.$$.log
git apply deliver/patch.diff
rm -rf /tmp/demo.$$.log /tmp/demo-hold.$$
