#!/usr/bin/env python3
"""usage: keep_seed.py <dir-name> <property> <worktree> <needs_to_manifest> <detected_by> [<note>]
Copies deliver/{patch.diff, demo, notes.md} of a confirmed seeded change into /verif/seeded/<dir-name>/ with meta.json."""
import json, os, shutil, sys, glob
name, prop, wt, needs, detected = sys.argv[1:6]
note = sys.argv[6] if len(sys.argv) > 6 else None
dst = os.path.join("/verif/seeded", name)
os.makedirs(dst, exist_ok=True)
d = os.path.join(wt, "deliver")
demo = None
for f in sorted(os.listdir(d)):
    if f == "patch.diff":
        shutil.copy(os.path.join(d, f), os.path.join(dst, "patch.diff"))
    elif f == "notes.md":
        shutil.copy(os.path.join(d, f), os.path.join(dst, "agent-notes.md"))
    elif f.endswith(".rs") or f.endswith(".sh") or f.endswith(".py"):
        shutil.copy(os.path.join(d, f), os.path.join(dst, f)); demo = demo or f
meta = {
 "property": prop,
 "origin": "written by a fresh sub-agent that was given only the property text and a scratch worktree of /repo",
 "patch": "patch.diff",
 "demonstration": demo,
 "needs_to_manifest": needs,
 "confirmed_by_me": {
  "how": "tools/confirm_seed.sh in the scratch worktree: demonstration with the change, full suite with the change (demonstration moved aside), demonstration without the change",
  "suite_with_change": "614 tests run: 614 passed",
  "demo_with_change": "fails",
  "demo_without_change": "passes"
 },
 "detected_by": detected,
 "how_checked": "tools/mutant.sh <patch> <check>: the patch is applied to a scratch worktree of /repo's HEAD, the same harness sources are built against it (VERIF_REPO) and the quick tier is run; /repo itself is never modified"
}
if note: meta["note"] = note
json.dump(meta, open(os.path.join(dst, "meta.json"), "w"), indent=1)
print("kept", dst, demo)
