#!/usr/bin/env python3
"""Regenerates /verif/MANIFEST.json from the table below (one entry per built check)."""
import json, os
ROOT = os.path.dirname(os.path.dirname(os.path.abspath(__file__)))
ids = [json.loads(l)["id"] for l in open(os.path.join(ROOT, "properties.jsonl"))]
HOOK_COMMITS = []   # filled as hook commits land in /repo
CHECKS = {
 "C08": dict(engine="valmc", cat="exploration", ref="DESIGN.md 4/C08",
   tech="bounded exhaustive enumeration of decoder inputs and of values per length class, differential against the consensus (de)serialiser",
   text="Every byte string in the stated finite sets (all strings <= 2 bytes quick / <= 3 thorough, class and length-prefix alphabets, every truncation and prefix bit flip of valid encodings) is decoded by the real decoder and by clvmr; every tree in the stated sets is serialised, compared byte for byte with clvmr and decoded again. Exhaustive inside the bounds; says nothing about unstructured inputs longer than the bounds.",
   note="Trusted: clvmr 0.16.2 node_to_bytes/node_from_bytes as the consensus format; the harness's own 40-line serialiser is cross-checked against clvmr on every value."),
 "C01": dict(engine="progmc", cat="exploration", ref="DESIGN.md 4/C01",
   tech="bounded exhaustive enumeration of surface programs per construct family x dialect x entry-point option set, compiled code under the consensus evaluator vs an independent reference interpreter",
   text="Programs are generated from the harness's own AST (never parsed by the repository) in five exhaustively enumerated sub-spaces: binder chains of length <= 2 (thorough 3) over 13 binder kinds x 2 binding variants x 3 name policies; every parameter tree with <= 3 (4) leaves plus flat/improper lists of up to 40 parameters in 6 function kinds, also with operator-lookalike names; every boundary literal and value-returning operator in 8 syntactic positions; call graphs with recursion, constant calls and &rest tails at every call site; small expression kernels. Each is compiled for all 6 sigils under both option sets the entry points derive and run by clvmr on 2-3 valuations; whenever the reference interpreter returns v the compiled code must return v.",
   note="Trusted: the reference interpreter (harness/src/lang.rs, ~400 lines, operators delegated to clvmr) as the statement of call-by-value meaning for the generated fragment; clvmr. One-directional; rejected programs make no claim. Known findings F13 F14 F27 F28 are matched by dialect + program feature + symptom."),
 "C02": dict(engine="progmc", cat="exploration", ref="DESIGN.md 4/C02",
   tech="bounded exhaustive differential exploration of the full optimisation-configuration matrix per program and dialect, plus reference interpreter",
   text="A slice of C01's exhaustively enumerated sub-spaces (~350 programs quick, several thousand thorough) and the modern programs shipped under resources/tests are compiled for every sigil under all 8 combinations of optimize / frontend_opt / classic post-optimiser and run by clvmr on valuations enumerated from the parameter shape. Checked on every (program, valuation): every build equals the reference value; any two value-returning builds agree (across the two integer-mode groups only without zero-led literals); and within a dialect, switching optimize or the post-optimiser on never turns a value-returning build into a failing one (compared at equal frontend_opt, as the property states).",
   note="Trusted: reference interpreter, clvmr. Shipped programs get argument trees enumerated over a 6-value alphabet; pairs where no build returns a value make no claim and are counted. Known findings F13 F14 F27 F28 matched as in C01."),
 "C03": dict(engine="progmc", cat="exploration", ref="DESIGN.md 4/C03",
   tech="bounded exhaustive enumeration of classic-expressible programs, classic build vs reference interpreter and vs the cl21 build",
   text="Every parameter tree with <= 3 (thorough 4) leaves and every flat / improper list of 1..40 parameters as main, defun and defun-inline parameters (called positionally), every boundary literal and operator in 6 positions, binder chains of length <= 2 (3) over defun / inline / template macro / if, recursion, constant calls and expression kernels are compiled without sigil through compile_clvm_text and run by clvmr; the classic build must return the reference value whenever there is one, and must agree with the modern cl21 build of the same source whenever both return a value.",
   note="Trusted: reference interpreter, clvmr. Quoted symbols and unbound identifiers are not generated (classic reads operator-spelled atoms as opcodes by design)."),
 "C04": dict(engine="clvmmc", cat="exploration", ref="DESIGN.md 4/C04",
   tech="bounded exhaustive enumeration of CLVM trees and of a path/wrapper/re-rooting family, optimiser output vs original under the consensus evaluator",
   text="Every CLVM tree with <= 4 (thorough 5) leaves over a 16-atom core alphabet, every (a (q . S) ARGS) with S <= 3 (4) leaves x 9 ARGS forms, and the product of ~1.7k (thorough ~4.8k) path atoms (1..9 bytes, all-ones, top-bit-set, zero-padded) x f/r wrapper chains (all short ones, homogeneous/alternating up to 80) x 6 re-rootings is optimised by optimize_sexp (and small trees by run_optimizer in both integer modes); original and output are evaluated by clvmr in a family of environments (complete trees, 90-deep spines, trees tailored to the path's bits). Exhaustive inside these bounds; the property's 'randomly beyond' region is replaced by the structured path family.",
   note="Trusted: clvmr as consensus evaluator. One-directional: nothing is required where the original fails. Known finding F18 (pair in operator position) is matched by input class."),
 "C06": dict(engine="clvmmc", cat="exploration", ref="DESIGN.md 4/C06",
   tech="bounded exhaustive enumeration of CLVM programs x environments x atom spellings, stepping evaluator vs consensus evaluator",
   text="Every tree with <= 4 (thorough 5) leaves over the core alphabet x 3 environments, every one-operator program over all 256 single-byte opcodes (minus softfork) and both secp opcodes with every argument list of length 0..3 over a 6-value alphabet, and every tree with <= 3 (4) leaves in 6 atom-spelling/integer-mode variants, are run by compiler::clvm::run and by clvmr; values must be identical and failures must coincide.",
   note="Trusted: clvmr. Byte-string heads that spell an operator name are read as names by design and compared only in integer spelling; legacy-mode variants exclude all-zero atoms (documented lossy). Known finding F15 (pair in operator position) is matched by input class."),
 "C07": dict(engine="conv", cat="exploration", ref="DESIGN.md 4/C07",
   tech="bounded exhaustive enumeration of atoms/trees in both integer modes; all-pairs equality check over a pool of rich values",
   text="Every atom of length 0..2 (quick) / 0..3 (thorough, 16.8M) and every tree with <= 3 leaves over a 38-atom boundary alphabet is converted to rich form and back in both integer modes and its three tree hashes are compared with clvmr's and with an independent sha256 in the harness; for the equality clause ALL ordered pairs of a pool of ~1.7k rich values (every accepted text spelling and the converted form of each pool atom) are compared. Exhaustive inside these bounds.",
   note="Trusted: clvmr tree_hash_from_stream (cross-checked against the harness's own sha256 tree hash). Hash collisions between unequal values are counted, not flagged (not observable through maps/sets; the property's '(and hash)' is read as consistency with ==)."),
 "C09": dict(engine="conv", cat="exploration", ref="DESIGN.md 4/C09",
   tech="bounded exhaustive enumeration of values in four syntactic positions, printer -> reader round trip through both syntaxes",
   text="Every atom of length 0..2 (quick) / 0..3 (thorough) alone, as list head, as non-head element and as improper tail, every small tree over a 50-atom alphabet of printer/reader corner cases, and long-atom families, are disassembled under each operator-set version and re-assembled, and (fixed integer mode) printed by the modern printer and re-read by both the modern reader and the classic assembler; each result must be byte-identical. Clause (c), compiler outputs, is checked by the program-level engine when present.",
   note="Trusted: nothing beyond byte equality of harness values; legacy integer mode excluded for the modern printer as the property states."),
 "C10": dict(engine="scopemc", cat="exploration", ref="DESIGN.md 4/C10",
   tech="exhaustive single-defect injection into generated well-scoped programs, compiled in isolated workers under a watchdog",
   text="For every well-scoped program of the binder-chain and call-graph spaces, every single defect of four kinds is injected exhaustively (an unbound name at each variable-use position, 4 strict sigils; a duplicate definition of each function in 4 kind combinations; every back edge of inline-only call chains over <= 3 (4) inlines; every cyclic dependency digraph and repeated name of an assign with <= 2 (3) bindings in 3 assign kinds; 6 sigils, both entry option sets). Each defective program must be rejected, in bounded time, with an error naming the identifier or form, and its repaired twin must compile; a hang or worker death (unbounded inline expansion) is a violation.",
   note="Defect positions are enumerated over the harness AST, so coverage is per construct of the generator. strict-cl21 is checked in its working configuration (F14). Known findings F20 F24 F29 F30."),
 "C12": dict(engine="dbgmc", cat="model_checking", ref="DESIGN.md 4/C12",
   tech="explicit-state exploration of the real debugger step function with a per-state denotation invariant against the consensus evaluator",
   text="The subject is the transition system CldbRun::step/run_step itself. Every (program, environment) of two finite families (all CLVM trees with <= 4 (thorough 5) leaves over a 16-atom alphabet x 3 environments; well-formed nested expressions of depth <= 2 over f r l c + = i a x 2 environments) is stepped from the initial state to termination; in every visited state the continuation stack is reified and evaluated with clvmr and must denote the program's consensus result; every emitted row with operator, arguments and value is re-evaluated with clvmr; row numbering, termination (Final / Throw / Failure) and hex-vs-source equality are checked. All traces are traces of the implementation (no separate model).",
   note="Trusted: clvmr; row texts are re-read with the modern reader (round trip established by C09). Known findings: F15 (pair in operator position) and F25 (pending `i` operator rows), matched by input class / symptom."),
 "C13": dict(engine="progmc", cat="exploration", ref="DESIGN.md 4/C13",
   tech="bounded exhaustive enumeration of programs with functions; every symbol entry checked against all subtree hashes of the emitted code and by running the extracted code",
   text="For every generated program with user functions and compiler-synthesised helpers (binder chains of length <= 2 (thorough 3), call graphs, parameter shapes) x 6 sigils x both entry option sets, the harness computes the tree hash of every subtree of the emitted program; each function entry whose code occurs in the program must carry the right name and written argument list, and its extracted code, run by clvmr in (left-env . arguments), must return what the reference interpreter returns for calling that function; unoptimised builds must have an entry for every non-inlined function.",
   note="Trusted: reference interpreter, clvmr, the harness's sha256 tree hash (cross-checked against clvmr in C07). Classic programs are not covered (modern symbol tables only)."),
 "C14": dict(engine="crashmc", cat="exploration", ref="DESIGN.md 4/C14",
   tech="bounded exhaustive token-soup / single-mutation neighbourhood / raw-byte enumeration over every entry point, in isolated worker processes with a wall-clock watchdog",
   text="Every token sequence of <= 3 (thorough 4) tokens over a 24-token alphabet on 13 entry points (compile through the library entry and in 5 dialects, assemble+disassemble, brun, cldb, dependency listing, unused-argument check, preprocess, REPL), every 4 (5)-token sequence on the reader-level entry points, every single-token deletion / duplication / adjacent swap and every truncation of 13 seed programs and of shipped sources, every byte string of length <= 2 and class strings of length 3 (4) on the binary/hex/assembler entry points, and ~850 include-file contents under 3 host programs. Panics are caught and identified by source site; aborts/stack overflows/hangs kill only the worker and are bisected to one case; every located compiler error is checked to name a real text and to lie inside it.",
   note="'never loops' is decided as 'within 10 s'. Mutation neighbourhoods of seeds, not all byte strings. Known finding F26 (usecheck non-termination on ill-formed recursive programs) is matched by entry point + input class; the quick tier leaves usecheck out for that class because each occurrence costs the full wall limit."),
 "C15": dict(engine="parsemc", cat="model_checking", ref="DESIGN.md 4/C15",
   tech="explicit-state exploration of the byte-at-a-time reader over all strings up to a length bound, locations checked against an independent tokenizer",
   text="The reader is a state machine (ParsePartialResult::push); every string of length <= 5 (thorough 7) over a 16-symbol alphabet covering every lexical class, and every sequence of <= 4 (5) token/separator units over 15 tokens x 4 separators (multi-line, comments, both quote styles with escapes, #-forms, dotted tails), is pushed byte by byte from the initial state, finalized and also parsed whole. An independent tokenizer gives every leaf's exact span and every list's parentheses; whole vs byte-wise results are compared including locations; error locations must be in bounds. states = strings reached, transitions = push calls.",
   note="Trusted: the harness tokenizer (its lexical rules are the reader's documented ones; accepted texts whose shape it does not model are counted and make no claim). Compiler-error locations are checked in C14."),
 "C16": dict(engine="replmc", cat="model_checking", ref="DESIGN.md 4/C16",
   tech="explicit-state exploration of REPL histories (all define-before-use orders) on the real Repl, results checked against the compiled program",
   text="The subject is the REPL state machine (Repl::process_line over the Evaluator). For 3 definition pools covering defun / defun-inline / defconstant / template defmacro with dependencies, destructuring parameters and &rest, every order that defines before use (24 + 12 + 6 histories) is replayed on a fresh Repl, followed by each of ~50 (thorough: several hundred composed) closed and open expressions. Checked: order independence of the result; constants equal the compiled program's value; residuals of open expressions compile and agree with the original program on 25 valuations.",
   note="Trusted: clvmr; compile_file with the REPL's own default options builds the comparison programs. REPL errors (depth limit) make no claim. Known finding F27 (variables in `if` branches of a residual) matched by expression class."),
 "C17": dict(engine="progmc", cat="exploration", ref="DESIGN.md 4/C17",
   tech="exhaustive enumeration of usage-class assignments, exhaustive non-interference check over all valuation pairs",
   text="All 8^k assignments of 8 usage classes to k <= 3 (thorough 4) lower-case parameters, in flat / nested / dotted parameter lists and 2 sigils; for each parameter the unused-argument check reports, every pair of valuations differing only in that parameter (3-value alphabet, all combinations of the others) is run on the compiled program and must give identical outcomes.",
   note="Trusted: clvmr. Only soundness of the report is claimed by the property; which used parameters are (not) reported is counted for information."),
 "C20": dict(engine="optab", cat="exploration", ref="DESIGN.md 4/C20",
   tech="complete enumeration of the finite operator tables plus one compiled-and-run program per operator",
   text="The property's domain is finite (49 names x 3 versions, 259 opcodes) and is enumerated completely on every run: inverse and monotonicity clauses on the tables, assembler/disassembler per opcode and version, and for each operator a hand-assembled program under the consensus evaluator compared with the tools' runner, the stepping evaluator (4 spellings) and code from the modern (cl21, cl24, optimise on/off) and classic compilers.",
   note="Trusted: clvmr as the definition of operator semantics; the per-operator argument vectors in the harness (a new operator without one is reported as a harness gap, not silently skipped)."),
}
NA_REASON = "check not built yet (work in progress; DESIGN.md section 4 describes the planned bounded-exhaustive exploration)"
m = {
 "version": 1,
 "setup_cmd": "cd /verif && ./check --build",
 "hooks": {
  "guard": "cargo feature verif-hooks",
  "enable": "the harness crate depends on chialisp (path /repo); hooks, where needed, are enabled through features=[\"verif-hooks\"]",
  "baseline_off_cmd": "cd /repo && RUSTUP_TOOLCHAIN=stable-x86_64-unknown-linux-gnu cargo nextest run --workspace --no-fail-fast --offline",
  "source_commits": HOOK_COMMITS,
  "add_only": True,
 },
 "engines": [
  {"name": "vmc", "path": "/verif/harness", "serves_properties": sorted(CHECKS), "kind_free_text": "one Rust binary with one explicit-state / bounded-exhaustive engine per property, linked against /repo's working tree"},
 ],
 "checks": [],
 "notes": "All checks: ./check <id> --tier quick|thorough; exit 0 held, 1 VIOLATION (replay file under /verif/replay/<id>/), 2 machinery failure. Known findings: /verif/known_findings.json.",
 "not_applicable": [],
}
for i in ids:
    if i in CHECKS:
        c = CHECKS[i]
        m["checks"].append({
         "property_id": i,
         "quick_cmd": "./check %s --tier quick" % i,
         "thorough_cmd": "./check %s --tier thorough" % i,
         "evidence_file": "/verif/evidence/%s.json" % i,
         "replay_cmd_template": "./check %s --replay {path}" % i,
         "engine": "vmc/" + c["engine"],
         "level_claimed": {"category": c["cat"], "text": c["text"], "design_ref": c["ref"]},
         "level_note": c["note"],
         "technique": c["tech"],
        })
    else:
        m["not_applicable"].append({"property_id": i, "reason": NA_REASON})
json.dump(m, open(os.path.join(ROOT, "MANIFEST.json"), "w"), indent=1)
print("checks:", len(m["checks"]), "not_applicable:", len(m["not_applicable"]))
