#!/bin/bash
# usage: mutant.sh <patch-file> <check-id>...   applies the patch to /repo, runs the quick checks, reverts.
patch=$1; shift
cd /repo || exit 2
if ! git diff --quiet; then echo "/repo has uncommitted changes"; exit 2; fi
git apply "$patch" || { echo "patch does not apply"; exit 2; }
for id in "$@"; do
  out=$(cd /verif && VERIF_ROOT=/tmp/mutant-out ./check $id --tier quick 2>&1); rc=$?
  echo "== $(basename $patch) / $id: exit $rc"
  echo "$out" | grep -A1 "^VIOLATION" | head -6 | cut -c1-400
  echo "$out" | grep "tier=" | tail -1
done
git -C /repo checkout -- .
