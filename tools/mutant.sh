#!/bin/bash
# usage: mutant.sh <patch-file> <check-id>...
# Development aid. Applies the patch to a scratch worktree of /repo's HEAD (never to /repo itself, so
# background sweeps against /repo are not disturbed), builds the same harness sources against that
# worktree (VERIF_REPO, shadow crate under /tmp/mutant-out) and runs the quick checks there.
# TIER=thorough runs the thorough tier instead.
patch=$(readlink -f "$1"); shift
wt=/tmp/mutant-wt
[ -d $wt ] || git -C /repo worktree add --detach $wt HEAD >/dev/null 2>&1 || exit 2
git -C $wt checkout -q --detach $(git -C /repo rev-parse HEAD) && git -C $wt checkout -q -- . && git -C $wt clean -fdq -e target
git -C $wt apply "$patch" 2>/dev/null || (cd $wt && patch -p1 -s -F3 < "$patch") || { echo "patch does not apply"; exit 2; }
for id in "$@"; do
  out=$(cd /verif && VERIF_REPO=$wt VERIF_ROOT=/tmp/mutant-out ./check $id --tier ${TIER:-quick} 2>&1); rc=$?
  echo "== $(basename $(dirname $patch))/$(basename $patch) / $id: exit $rc"
  echo "$out" | grep -A1 "^VIOLATION" | head -${LINES_SHOWN:-6} | cut -c1-500
  echo "$out" | grep "tier=" | tail -1
  [ $rc = 2 ] && echo "$out" | tail -15
done
git -C $wt checkout -q -- .
