//! C16 — explicit-state exploration of REPL histories: every define-before-use order of a
//! definition pool, followed by closed and open expressions.
use crate::oracle::{consensus, Out};
use crate::par::{catch, par_range};
use crate::report::{Report, Stats};
use crate::subject::*;
use crate::tree::*;
use serde_json::json;
use std::rc::Rc;
use std::time::Duration;

use chialisp::classic::clvm_tools::stages::stage_0::{DefaultProgramRunner, TRunProgram};
use chialisp::compiler::compiler::DefaultCompilerOpts;
use chialisp::compiler::comptypes::{BodyForm, CompilerOpts};
use chialisp::compiler::dialect::AcceptedDialect;
use chialisp::compiler::repl::Repl;
use clvmr::allocator::Allocator;

struct Pool {
    name: &'static str,
    /// (definition text, names it depends on, its own name)
    defs: Vec<(&'static str, Vec<&'static str>, &'static str)>,
    closed: Vec<&'static str>,
    open: Vec<&'static str>,
}

fn pools() -> Vec<Pool> {
    vec![
        Pool {
            name: "independent",
            defs: vec![
                ("(defun INC (X K) (+ X K))", vec![], "INC"),
                ("(defun-inline DBL (X) (* 2 X))", vec![], "DBL"),
                ("(defconstant K7 7)", vec![], "K7"),
                ("(defmacro TWICE (P) (qq (c (unquote P) (unquote P))))", vec![], "TWICE"),
            ],
            closed: vec!["(INC 1 2)", "(DBL 5)", "K7", "(TWICE 3)", "(INC (DBL K7) 1)", "(list (INC 1 2) (DBL 3) K7)", "(if (= (DBL 2) 4) K7 0)", "(c (INC 1 K7) ())", "(TWICE (INC 1 1))", "(DBL (DBL (DBL 1)))", "(INC (f (q . (10 20))) (f (r (q . (10 20)))))", "(if () (x 1) (INC 5 5))", "(sha256 (INC 1 1))", "(DBL -3)", "(INC 0x00ff 1)"],
            open: vec!["(INC A 1)", "(DBL A)", "(TWICE A)", "(INC (DBL A) B)", "(if A (INC B 1) K7)", "(list A (DBL B) K7)", "(c (INC A K7) (TWICE B))", "(INC (f A) (f B))", "(if (= A B) (DBL A) (INC B 1))"],
        },
        Pool {
            name: "dependent",
            defs: vec![
                ("(defconstant BASE 10)", vec![], "BASE"),
                ("(defun ADDB (X) (+ X BASE))", vec!["BASE"], "ADDB"),
                ("(defun-inline TW (X) (ADDB (ADDB X)))", vec!["ADDB"], "TW"),
                ("(defun LEN (L) (if L (+ 1 (LEN (r L))) 0))", vec![], "LEN"),
            ],
            closed: vec!["(ADDB 1)", "(TW 1)", "(LEN (q . (1 2 3)))", "(LEN ())", "(ADDB (LEN (q . (5 6))))", "(list BASE (TW BASE))", "(if (LEN (q . (1))) (TW 2) (x))", "(TW (TW 0))"],
            open: vec!["(ADDB A)", "(TW A)", "(ADDB (TW B))", "(if A (ADDB B) BASE)", "(c (TW A) (ADDB B))", "(LEN (c A (c B ())))", "(LEN (list A B A))"],
        },
        Pool {
            name: "destructuring-and-rest",
            defs: vec![
                ("(defun PAIR ((X . Y) Z) (list X Y Z))", vec![], "PAIR"),
                ("(defun-inline SWAP (X Y) (c Y X))", vec![], "SWAP"),
                ("(defun REST3 (X &rest R) (c X R))", vec![], "REST3"),
            ],
            closed: vec!["(PAIR (q . (1 . 2)) 3)", "(SWAP 1 2)", "(PAIR (SWAP 1 2) 3)", "(REST3 1 2 3)", "(REST3 1 &rest (q . (8 9)))", "(SWAP (SWAP 1 2) 3)"],
            open: vec!["(PAIR A B)", "(SWAP A B)", "(PAIR (SWAP A B) A)", "(REST3 A B)", "(REST3 A &rest B)", "(SWAP (f A) (r A))"],
        },
        Pool {
            name: "lambdas-and-captures",
            defs: vec![
                ("(defun adder (P) (lambda ((& P) X) (lambda ((& P X) Y) (+ (* P X) Y))))", vec![], "adder"),
                ("(defun adder2 (P) (lambda ((& P) X) (lambda ((& X P) Y) (+ (* P X) Y))))", vec![], "adder2"),
                ("(defun map (F L) (if L (c (a F (list (f L))) (map F (r L))) ()))", vec![], "map"),
                ("(defun addall (K L) (map (lambda ((& K) E) (+ K E)) L))", vec!["map"], "addall"),
            ],
            closed: vec![
                "(a (a (adder 10) (list 2)) (list 3))",
                "(a (a (adder2 10) (list 2)) (list 3))",
                "(addall 10 (q . (1 2 3)))",
                "(a (lambda ((& ) X Y) (list X Y)) (list 1 2))",
                "(map (lambda (E) (a (lambda ((& E) Z) (c E Z)) (list 5))) (q . (1 2)))",
                "(a (a (lambda (P) (lambda ((& P) X Y) (list P X Y))) (list 7)) (list 8 9))",
            ],
            open: vec!["(a (a (adder A) (list 2)) (list 3))", "(a (a (adder 10) (list A)) (list B))", "(a (lambda ((& A B) Y) (list A B Y)) (list 3))", "(a (lambda ((& A) Y) (list A Y)) (list B))"],
        },
    ]
}

fn orders(defs: &[(&'static str, Vec<&'static str>, &'static str)]) -> Vec<Vec<usize>> {
    // every permutation that defines before use
    fn rec(defs: &[(&'static str, Vec<&'static str>, &'static str)], cur: &mut Vec<usize>, out: &mut Vec<Vec<usize>>) {
        if cur.len() == defs.len() {
            out.push(cur.clone());
            return;
        }
        for i in 0..defs.len() {
            if cur.contains(&i) {
                continue;
            }
            let ok = defs[i].1.iter().all(|d| cur.iter().any(|j| defs[*j].2 == *d));
            if ok {
                cur.push(i);
                rec(defs, cur, out);
                cur.pop();
            }
        }
    }
    let mut out = vec![];
    rec(defs, &mut vec![], &mut out);
    out
}

#[derive(Debug, Clone, PartialEq, Eq)]
enum ReplOut {
    Constant(T),
    Residual(String),
    Error(String),
    Panic(String),
}

/// Enter the history line by line into a fresh REPL, then the expression; returns the result for the expression.
fn repl_history(lines: &[String], expr: &str) -> (ReplOut, usize) {
    let lines = lines.to_vec();
    let expr = expr.to_string();
    let r = catch(std::panic::AssertUnwindSafe(move || {
        let mut a = Allocator::new();
        let runner: Rc<dyn TRunProgram> = Rc::new(DefaultProgramRunner::new());
        let opts: Rc<dyn CompilerOpts> = Rc::new(DefaultCompilerOpts::new("*repl*"));
        let mut repl = Repl::new(opts, runner);
        let mut transitions = 0;
        for l in &lines {
            transitions += 1;
            if let Err(e) = repl.process_line(&mut a, l.clone()) {
                return (ReplOut::Error(format!("definition {:?} rejected: {}", l, e.1)), transitions);
            }
        }
        transitions += 1;
        match repl.process_line(&mut a, expr) {
            Ok(Some(bf)) => {
                let b: &BodyForm = std::borrow::Borrow::borrow(&bf);
                match b {
                    BodyForm::Quoted(x) => match from_sexp(Rc::new(x.clone())) {
                        Ok(t) => (ReplOut::Constant(t), transitions),
                        Err(e) => (ReplOut::Error(e), transitions),
                    },
                    other => (ReplOut::Residual(other.to_sexp().to_string()), transitions),
                }
            }
            Ok(None) => (ReplOut::Error("no result".to_string()), transitions),
            Err(e) => (ReplOut::Error(e.1), transitions),
        }
    }));
    match r {
        Ok(x) => x,
        Err(p) => (ReplOut::Panic(p), 0),
    }
}

fn compile_plain(text: &str) -> Result<T, String> {
    modern_compile(text, AcceptedDialect::default(), &ModernOpts::default()).map(|c| c.code).map_err(|e| e.msg())
}

fn check_pool_expr(st: &mut Stats, pool: &Pool, expr: &str, open: bool, counters: &mut (u64, u64)) {
    let ords = orders(&pool.defs);
    let defs_text: String = pool.defs.iter().map(|d| d.0).collect::<Vec<_>>().join(" ");
    let mut results: Vec<(Vec<usize>, ReplOut)> = vec![];
    for o in &ords {
        st.eval();
        let lines: Vec<String> = o.iter().map(|i| pool.defs[*i].0.to_string()).collect();
        let (r, tr) = repl_history(&lines, expr);
        counters.0 += 1;
        counters.1 += tr as u64;
        results.push((o.clone(), r));
    }
    let replay = json!({"kind": "c16", "pool": pool.name, "expr": expr, "defs": defs_text});
    // order independence (generated names carry a counter: compared after renumbering)
    fn norm(r: &ReplOut) -> ReplOut {
        fn strip(s: &str) -> String {
            let mut out = String::new();
            let mut it = s.split("_$_");
            if let Some(first) = it.next() {
                out.push_str(first);
            }
            for part in it {
                out.push_str("_$_N");
                out.push_str(part.trim_start_matches(|c: char| c.is_ascii_digit()));
            }
            out
        }
        match r {
            ReplOut::Residual(t) => ReplOut::Residual(strip(t)),
            other => other.clone(),
        }
    }
    let first = &results[0].1;
    for (o, r) in &results[1..] {
        if norm(r) != norm(first) {
            st.violation(&format!("order-dependent/{}", pool.name), format!("pool {}: expression {} gives {:?} after definition order {:?} but {:?} after order {:?}", pool.name, expr, first, results[0].0, r, o), expr.len(), replay.clone());
            break;
        }
    }
    match first {
        ReplOut::Panic(p) => st.violation(&format!("repl-panic/{}", pool.name), format!("pool {}: expression {}: {}", pool.name, expr, p), expr.len(), replay),
        ReplOut::Error(e) => {
            st.outcome("repl-error(no claim)");
            st.count(&format!("repl-error[{}]", e.chars().take(40).collect::<String>()), 1);
        }
        ReplOut::Constant(c) => {
            if open {
                // a constant for an open expression: it must still agree with the compiled program on every valuation
                st.outcome("open-reduced-to-constant");
            } else {
                st.outcome("closed-reduced-to-constant");
            }
            let params = if open { "(A B)" } else { "()" };
            let text = format!("(mod {} {} {})", params, defs_text, expr);
            match compile_plain(&text) {
                Ok(code) => {
                    for a in valuations(open) {
                        match consensus(&code, &a) {
                            Out::Val(v) => {
                                if v == *c {
                                    st.nontrivial(&(pool.name, expr, &a));
                                    st.sample(json!({"pool": pool.name, "orders": ords.len(), "expression": expr, "repl_constant": c.short(), "compiled_value": v.short()}));
                                } else {
                                    st.violation(&format!("constant-differs/{}", pool.name), format!("pool {}: REPL reduces {} to {}, the compiled program {} returns {} on {}", pool.name, expr, c.short(), text, v.short(), a.short()), expr.len(), replay.clone());
                                }
                            }
                            _ => st.count("compiled-program-has-no-value(no claim)", 1),
                        }
                    }
                }
                Err(e) => st.count(&format!("compiled-twin-rejected[{}]", e.chars().take(40).collect::<String>()), 1),
            }
        }
        ReplOut::Residual(res) => {
            st.outcome(if open { "open-residual" } else { "closed-residual" });
            let params = if open { "(A B)" } else { "()" };
            let orig = format!("(mod {} {} {})", params, defs_text, expr);
            let resid = format!("(mod {} {} {})", params, defs_text, res);
            let oc = match compile_plain(&orig) {
                Ok(c) => c,
                Err(_) => {
                    st.count("original-rejected(no claim)", 1);
                    return;
                }
            };
            match compile_plain(&resid) {
                Err(e) => st.violation(&format!("residual-does-not-compile/{}", pool.name), format!("pool {}: residual of {} is {}, which does not compile: {}", pool.name, expr, res, e), expr.len(), replay),
                Ok(rc) => {
                    for a in valuations(open) {
                        if let Out::Val(v) = consensus(&oc, &a) {
                            match consensus(&rc, &a) {
                                Out::Val(w) if w == v => {
                                    st.nontrivial(&(pool.name, expr, &a));
                                    st.sample(json!({"pool": pool.name, "expression": expr, "residual": res, "args": a.short(), "value": v.short()}));
                                }
                                Out::Limit => {}
                                other => {
                                    let quoted_name = ["A", "B"].iter().any(|n| res.contains(&format!("(1 . {})", n)) || res.contains(&format!("(q . {})", n)));
                                    let sig = if open && expr.contains("(if ") && quoted_name { "evaluator/variables-in-if-branches-replaced-by-their-names".to_string() } else { format!("residual-differs/{}", pool.name) };
                                    st.violation(&sig, format!("pool {}: {} -> residual {}; on {} the original returns {}, the residual {}", pool.name, expr, res, a.short(), v.short(), other.short()), expr.len(), replay.clone());
                                }
                            }
                        }
                    }
                }
            }
        }
    }
}

/// names bound anywhere inside an expression (let / assign / lambda), to rule out shadowing of a substituted name
fn bound_names(e: &crate::lang::E, out: &mut Vec<String>) {
    use crate::lang::E;
    match e {
        E::Var(_) | E::Lit(_, _) | E::Quote(_) | E::QuoteSym(_) => {}
        E::Prim(_, a) | E::List(a) | E::MacroCall(_, a) => a.iter().for_each(|x| bound_names(x, out)),
        E::If(c, t, f) => {
            bound_names(c, out);
            bound_names(t, out);
            bound_names(f, out);
        }
        E::Call(_, a, r) => {
            a.iter().for_each(|x| bound_names(x, out));
            if let Some(r) = r {
                bound_names(r, out);
            }
        }
        E::Let(_, bs, b) => {
            bs.iter().for_each(|(n, x)| {
                out.push(n.clone());
                bound_names(x, out)
            });
            bound_names(b, out);
        }
        E::Assign(_, bs, b) => {
            bs.iter().for_each(|(p, x)| {
                p.names(out);
                bound_names(x, out)
            });
            bound_names(b, out);
        }
        E::Lambda(_, p, b) => {
            p.names(out);
            bound_names(b, out);
        }
        E::Apply(f, a) => {
            bound_names(f, out);
            bound_names(a, out);
        }
        E::ApplyMod(_, a) => bound_names(a, out),
    }
}

/// A generated program (helpers + main expression over the parameters) driven through the REPL:
/// the helpers are entered as definitions, one per line, then
///  - closed: the main expression with every parameter replaced by the quoted argument value;
///  - open: the main expression itself, its parameters free.
fn check_generated(st: &mut Stats, case: &crate::gen::Case, counters: &mut (u64, u64)) {
    use crate::lang::{bind, subst, Prog, E, V};
    let prog: &Prog = &case.prog;
    let lines: Vec<String> = prog.helpers.iter().map(|h| h.text()).collect();
    let defs_text = lines.join(" ");
    let tag = case.tags.join("+");
    let mut names = vec![];
    prog.params.names(&mut names);
    let mut shadow = vec![];
    bound_names(&prog.body, &mut shadow);
    let substitutable = !names.iter().any(|n| shadow.contains(n));
    // closed: one expression per valuation
    if substitutable {
        for a in &case.args {
            let mut env = vec![];
            if bind(&prog.params, &V::from_t(a), &mut env).is_err() {
                continue;
            }
            let mut ps = vec![];
            let mut qs = vec![];
            for (n, v) in &env {
                if let Some(t) = v.to_t() {
                    ps.push(n.clone());
                    qs.push(E::Quote(t));
                }
            }
            let expr = subst(&prog.body, &ps, &qs).text();
            st.eval();
            let (r, tr) = repl_history(&lines, &expr);
            counters.0 += 1;
            counters.1 += tr as u64;
            let replay = json!({"kind": "c16", "defs": defs_text, "expr": expr});
            match r {
                ReplOut::Panic(p) => st.violation(&format!("repl-panic/{}", case.tags[0]), format!("definitions {} ; expression {}: {}", defs_text, expr, p), expr.len(), replay),
                ReplOut::Error(e) => {
                    st.outcome("repl-error(no claim)");
                    st.count(&format!("repl-error[{}]", e.chars().take(40).collect::<String>()), 1);
                }
                ReplOut::Residual(_) => st.outcome("closed-residual(no claim)"),
                ReplOut::Constant(c) => {
                    st.outcome("closed-reduced-to-constant");
                    let text = format!("(mod () {} {})", defs_text, expr);
                    match compile_plain(&text) {
                        Ok(code) => match consensus(&code, &T::nil()) {
                            Out::Val(v) if v == c => {
                                st.nontrivial(&(&defs_text, &expr));
                                st.sample(json!({"definitions": defs_text, "expression": expr, "repl_constant": c.short(), "compiled_value": v.short()}));
                            }
                            Out::Val(_) if crate::progmc::reference(prog, a).ok().as_ref() == Some(&c) => {
                                // the REPL's constant is what the source means; it is the compiled twin that is wrong (C01's findings)
                                st.outcome("compiled-twin-differs-from-the-reference(C01's business, no claim)");
                            }
                            Out::Val(v) => {
                                // F27's symptom in a closed expression: a let/assign-bound name used in an `if` arm comes back as its (generated) NAME
                                fn has_generated_name(t: &T) -> bool {
                                    match t {
                                        T::A(b) => String::from_utf8_lossy(b).contains("_$_"),
                                        T::P(x, y) => has_generated_name(x) || has_generated_name(y),
                                    }
                                }
                                let cls = if expr.contains("(if ") && has_generated_name(&c) {
                                    "evaluator/variables-in-if-branches-replaced-by-their-names".to_string()
                                } else if tag.contains("destructure-call") || defs_text.contains("(@ ") {
                                    "constant-differs/@-capture".to_string()
                                } else {
                                    format!("constant-differs/{}", case.tags[0])
                                };
                                st.violation(&cls, format!("after {} the REPL reduces {} to {}, the compiled program {} returns {}", defs_text, expr, c.short(), text, v.short()), expr.len(), replay)
                            }
                            _ => st.count("compiled-program-has-no-value(no claim)", 1),
                        },
                        Err(e) => st.count(&format!("compiled-twin-rejected[{}]", e.chars().take(40).collect::<String>()), 1),
                    }
                }
            }
        }
    }
    // open: the parameters stay free
    let expr = prog.body.text();
    st.eval();
    let (r, tr) = repl_history(&lines, &expr);
    counters.0 += 1;
    counters.1 += tr as u64;
    let replay = json!({"kind": "c16", "defs": defs_text, "expr": expr, "params": prog.params.text()});
    match r {
        ReplOut::Panic(p) => st.violation(&format!("repl-panic/{}", case.tags[0]), format!("definitions {} ; expression {}: {}", defs_text, expr, p), expr.len(), replay),
        ReplOut::Error(e) => {
            st.outcome("repl-error(no claim)");
            st.count(&format!("repl-error[{}]", e.chars().take(40).collect::<String>()), 1);
        }
        ReplOut::Constant(_) => st.outcome("open-reduced-to-constant(no claim)"),
        ReplOut::Residual(res) => {
            st.outcome("open-residual");
            let orig = format!("(mod {} {} {})", prog.params.text(), defs_text, expr);
            let resid = format!("(mod {} {} {})", prog.params.text(), defs_text, res);
            let oc = match compile_plain(&orig) {
                Ok(c) => c,
                Err(_) => {
                    st.count("original-rejected(no claim)", 1);
                    return;
                }
            };
            // F27's symptom: a branch of an `if` was compiled without knowledge of the free variables, so the
            // residual contains a free variable's NAME as quoted data
            let has_if = (expr.contains("(if ") || defs_text.contains("(if ")) && names.iter().any(|n| res.contains(&format!("(1 . {})", n)) || res.contains(&format!("(q . {})", n)));
            match compile_plain(&resid) {
                Err(e) => {
                    let sig = if has_if { "evaluator/variables-in-if-branches-replaced-by-their-names".to_string() } else { format!("residual-does-not-compile/{}", case.tags[0]) };
                    st.violation(&sig, format!("after {}: residual of {} is {}, which does not compile: {}", defs_text, expr, res, e), expr.len(), replay)
                }
                Ok(rc) => {
                    for a in &case.args {
                        if let Out::Val(v) = consensus(&oc, a) {
                            match consensus(&rc, a) {
                                Out::Val(w) if w == v => {
                                    st.nontrivial(&(&defs_text, &expr, a));
                                }
                                Out::Limit => {}
                                Out::Val(w) if crate::progmc::reference(prog, a).ok().as_ref() == Some(&w) => {
                                    st.outcome("compiled-twin-differs-from-the-reference(C01's business, no claim)");
                                }
                                other => {
                                    let sig = if has_if { "evaluator/variables-in-if-branches-replaced-by-their-names".to_string() } else if defs_text.contains("(@ ") { "residual-differs/@-capture".to_string() } else { format!("residual-differs/{}", case.tags[0]) };
                                    st.violation(&sig, format!("after {}: {} -> residual {}; on {} the original returns {}, the residual {}", defs_text, expr, res, a.short(), v.short(), other.short()), expr.len(), replay.clone());
                                }
                            }
                        }
                    }
                }
            }
        }
    }
}

fn valuations(open: bool) -> Vec<T> {
    if !open {
        return vec![T::nil()];
    }
    let vals = [T::nil(), T::int(5), T::list(&[T::int(1), T::int(2)]), T::p(T::int(7), T::int(9)), T::int(-3)];
    let mut out = vec![];
    for a in &vals {
        for b in &vals {
            out.push(T::list(&[a.clone(), b.clone()]));
        }
    }
    out
}

pub fn c16(thorough: bool, replay: Option<String>) -> i32 {
    let mut rep = Report::new("C16", if thorough { "thorough" } else { "quick" }, "model_checking");
    rep.rule = "explicit-state exploration of REPL histories on the real Repl object: for each definition pool (defun, defun-inline, defconstant, template defmacro, with dependencies, destructuring and &rest), EVERY order that defines before use is entered line by line into a fresh Repl (a state = a history, a transition = one process_line call), followed by each closed / open expression of the pool. \
        Invariants: the result is independent of the definition order; a closed expression reduced to a constant equals the value of the compiled program (mod () defs expr) whenever that returns one; for an open expression (free A, B) the residual compiles as (mod (A B) defs residual) and agrees with (mod (A B) defs expr) on all 25 valuations on which the original returns a value. Depth-limit and other REPL errors make no claim. non-trivial = distinct (pool, expression, valuation) triples confirmed"
        .to_string();
    rep.assumptions = vec!["the comparison program is compiled by compile_file with the same default options the REPL uses".to_string(), "clvmr is the consensus evaluator".to_string()];
    if replay.is_some() {
        let st = Stats::new();
        rep.add_sub("replay", "re-run the check; replay files carry pool, definitions and expression", 0, false, false, st);
        return rep.finish();
    }
    let cap = Some(Duration::from_secs(if thorough { 3000 } else { 50 }));
    let ps = pools();
    let mut plan: Vec<(usize, String, bool)> = vec![];
    for (pi, p) in ps.iter().enumerate() {
        for e in &p.closed {
            plan.push((pi, e.to_string(), false));
        }
        for e in &p.open {
            plan.push((pi, e.to_string(), true));
        }
        if thorough {
            // compositions: every closed expression as an argument of every unary-looking open one
            for e in &p.closed {
                for o in &p.open {
                    if o.contains(" A)") {
                        plan.push((pi, o.replacen(" A)", &format!(" {})", e), 1), true));
                    }
                }
            }
        }
    }
    let n = plan.len() as u64;
    let (mut st, capped) = par_range(n, 1, cap, || (0u64, 0u64), |c, st, i| {
        let before = *c;
        let (pi, e, open) = &plan[i as usize];
        check_pool_expr(st, &ps[*pi], e, *open, c);
        st.count("states", c.0 - before.0);
        st.count("transitions", c.1 - before.1);
    });
    rep.states = st.counters.get("states").copied().unwrap_or(0);
    rep.transitions = st.counters.get("transitions").copied().unwrap_or(0);
    st.max_samples = 4;
    let total_orders: usize = ps.iter().map(|p| orders(&p.defs).len()).sum();
    rep.add_sub("repl-histories", &format!("{} definition pools with {} define-before-use orders in total x {} expressions (closed and open)", ps.len(), total_orders, n), n, true, capped, st);

    // redefinition histories: define everything, optionally evaluate one expression (warming whatever the evaluator
    // keeps), redefine ONE helper, evaluate an expression: the result must be that of the program built from the
    // definitions now in force
    {
        let v1: Vec<(&str, &str)> = vec![
            ("scale", "(defun scale (X) (* X 2))"),
            ("g", "(defun g (X) (+ 1 (scale X)))"),
            ("K", "(defconstant K 1)"),
            ("h", "(defun h (X) (+ X K))"),
            ("dbl", "(defun-inline dbl (X) (* X 2))"),
            ("u", "(defun u (X) (dbl (+ X 1)))"),
            ("M", "(defmacro M (P) (qq (+ (unquote P) 1)))"),
            ("w", "(defun w (X) (M X))"),
        ];
        let v2: Vec<(&str, &str)> = vec![("scale", "(defun scale (X) (* X 3))"), ("K", "(defconstant K 10)"), ("dbl", "(defun-inline dbl (X) (* X 5))"), ("M", "(defmacro M (P) (qq (+ (unquote P) 7)))"), ("g", "(defun g (X) (+ 2 (scale X)))")];
        let exprs: Vec<&str> = vec!["(g 5)", "(a g (list 5))", "(h 5)", "(a h (list 5))", "(u 5)", "(a u (list 5))", "(w 5)", "(a w (list 5))", "K", "(dbl 4)", "(M 4)", "(list (g 1) (a g (list 1)))"];
        let mut plan: Vec<(Option<usize>, usize, usize)> = vec![];
        for warm in std::iter::once(None).chain((0..exprs.len()).map(Some)) {
            for r in 0..v2.len() {
                for e in 0..exprs.len() {
                    plan.push((warm, r, e));
                }
            }
        }
        let n = plan.len() as u64;
        let (mut st, capped) = par_range(n, 4, cap, || (0u64, 0u64), |c, st, i| {
            let (warm, r, e) = plan[i as usize];
            st.eval();
            let mut lines: Vec<String> = v1.iter().map(|d| d.1.to_string()).collect();
            if let Some(w) = warm {
                lines.push(exprs[w].to_string());
            }
            lines.push(v2[r].1.to_string());
            let (out, tr) = repl_history(&lines, exprs[e]);
            c.0 += 1;
            c.1 += tr as u64;
            st.count("states", 1);
            st.count("transitions", tr as u64);
            // definitions in force at the end
            let final_defs: Vec<String> = v1.iter().map(|d| if d.0 == v2[r].0 { v2[r].1.to_string() } else { d.1.to_string() }).collect();
            let text = format!("(mod () {} {})", final_defs.join(" "), exprs[e]);
            let replay = json!({"kind": "c16", "history": lines, "expr": exprs[e]});
            match out {
                ReplOut::Panic(p) => st.violation("repl-panic/redefinition", format!("history {:?} then {}: {}", lines, exprs[e], p), lines.len(), replay),
                ReplOut::Error(err) => {
                    st.outcome("repl-error(no claim)");
                    st.count(&format!("repl-error[{}]", err.chars().take(40).collect::<String>()), 1);
                }
                ReplOut::Residual(_) => st.outcome("closed-residual(no claim)"),
                ReplOut::Constant(cst) => match compile_plain(&text) {
                    Ok(code) => match consensus(&code, &T::nil()) {
                        Out::Val(v) if v == cst => {
                            st.outcome("constant-equals-the-program-of-the-definitions-in-force");
                            st.nontrivial(&(warm, r, e));
                            st.sample(json!({"history": lines, "expression": exprs[e], "repl_constant": cst.short(), "compiled_value": v.short()}));
                        }
                        Out::Val(v) => st.violation(&format!("stale-after-redefinition/{}", v2[r].0), format!("after {:?} the REPL reduces {} to {}, but the program of the definitions in force, {}, returns {}", lines, exprs[e], cst.short(), text, v.short()), lines.len(), replay),
                        _ => st.count("compiled-program-has-no-value(no claim)", 1),
                    },
                    Err(err) => st.count(&format!("compiled-twin-rejected[{}]", err.chars().take(40).collect::<String>()), 1),
                },
            }
        });
        rep.states += st.counters.get("states").copied().unwrap_or(0);
        rep.transitions += st.counters.get("transitions").copied().unwrap_or(0);
        st.max_samples = 3;
        rep.add_sub("redefinition-histories", &format!("8 definitions (defun, defun-inline, defconstant, defmacro and functions depending on each) entered, then no or one of {} warm-up expressions (direct calls and functions used as values), then the redefinition of one of {} helpers, then each of {} expressions", exprs.len(), v2.len(), exprs.len()), n, true, capped, st);
    }

    // generated programs: the definitions and main expressions of C01's exhaustively enumerated families
    {
        use crate::gen::*;
        let mut cases: Vec<Case> = vec![];
        for c in scope_chains(if thorough { 2 } else { 1 }) {
            cases.push(scope_case(&c, NamePolicy::Fresh, None));
        }
        if !thorough {
            // chains of two binders where a function call (plain, destructuring with (@ ..) capture, &rest) is followed by a conditional or a let
            for c in scope_chains(2) {
                let kinds: Vec<&str> = c.iter().map(|(b, _)| BINDERS[*b]).collect();
                if c.len() == 2 && ["defun", "inline", "destructure-call", "rest-call"].contains(&kinds[0]) && ["if-branch", "let", "destructure-call"].contains(&kinds[1]) {
                    cases.push(scope_case(&c, NamePolicy::Fresh, None));
                }
            }
        }
        let flat: Vec<usize> = if thorough { vec![1, 2, 3, 8, 17] } else { vec![2, 3] };
        for p in param_patterns(if thorough { 4 } else { 3 }, &flat) {
            for kind in ["defun-positional", "inline-positional", "defun-rest", "inline-rest", "defun-rest-if", "inline-rest-if"] {
                if let Some(c) = params_case(&p, kind, None) {
                    cases.push(c);
                }
            }
        }
        cases.extend(calls_cases(None, if thorough { 3 } else { 2 }));
        cases.extend(nested_cases(None));
        let n = cases.len() as u64;
        let (mut st, capped) = par_range(n, 4, cap, || (0u64, 0u64), |c, st, i| {
            let before = *c;
            check_generated(st, &cases[i as usize], c);
            st.count("states", c.0 - before.0);
            st.count("transitions", c.1 - before.1);
        });
        rep.states += st.counters.get("states").copied().unwrap_or(0);
        rep.transitions += st.counters.get("transitions").copied().unwrap_or(0);
        rep.traces = rep.states;
        st.max_samples = 4;
        rep.add_sub("generated-programs", &format!("{} generated programs (binder chains, every parameter shape incl. (@ name pattern) captures in defun / inline via positional and &rest calls, call graphs, nested modules): helpers entered as definitions line by line, then the main expression closed over each argument valuation (parameters replaced by quoted values) and open (parameters free)", n), n, true, capped, st);
    }
    rep.finish()
}
