//! C15 — explicit-state exploration of the byte-at-a-time reader
//! (`ParsePartialResult::push` / `finalize`) against an independent tokenizer.
use crate::par::{catch, par_range};
use crate::report::{Report, Stats};
use crate::tree::*;
use serde_json::json;
use std::rc::Rc;
use std::time::Duration;

use chialisp::compiler::sexp::{parse_sexp, ParsePartialResult, SExp};
use chialisp::compiler::srcloc::Srcloc;

type Pos = (usize, usize); // (line, col), 1-based

#[derive(Debug, Clone)]
enum Node {
    Leaf { start: Pos, end: Pos, text: String },
    List { open: Pos, close_end: Pos, items: Vec<Node>, tail: Option<Box<Node>>, structured: bool },
}

#[derive(Debug)]
enum Exp {
    Forms(Vec<Node>),
    /// the independent parser expects the reader to reject (or does not model this corner)
    NotModelled(&'static str),
}

struct P<'a> {
    b: &'a [u8],
    i: usize,
    line: usize,
    col: usize,
}

impl<'a> P<'a> {
    fn pos(&self) -> Pos {
        (self.line, self.col)
    }
    fn peek(&self) -> Option<u8> {
        self.b.get(self.i).copied()
    }
    fn bump(&mut self) -> u8 {
        let c = self.b[self.i];
        self.i += 1;
        if c == b'\n' {
            self.line += 1;
            self.col = 1;
        } else {
            self.col += 1;
        }
        c
    }
    fn is_ws(c: u8) -> bool {
        // the reader uses char::is_whitespace on the byte as a char
        (c as char).is_whitespace()
    }
    fn skip_ws(&mut self) {
        while let Some(c) = self.peek() {
            if Self::is_ws(c) {
                self.bump();
            } else if c == b';' {
                while let Some(c) = self.peek() {
                    self.bump();
                    if c == b'\n' {
                        break;
                    }
                }
            } else {
                break;
            }
        }
    }
    fn bareword(&mut self, start: Pos, in_list: bool, mut text: Vec<u8>) -> Node {
        let mut end = (start.0, start.1 + text.len());
        if text.is_empty() {
            end = start;
        }
        while let Some(c) = self.peek() {
            if Self::is_ws(c) || (in_list && c == b')') {
                break;
            }
            let p = self.pos();
            self.bump();
            text.push(c);
            end = (p.0, p.1 + 1);
        }
        Node::Leaf { start, end, text: String::from_utf8_lossy(&text).to_string() }
    }
    fn object(&mut self, in_list: bool) -> Result<Node, &'static str> {
        let start = self.pos();
        let c = self.peek().ok_or("eof")?;
        match c {
            b'(' => {
                self.bump();
                self.list(start, false)
            }
            b'"' | b'\'' => {
                self.bump();
                let mut text = vec![c];
                loop {
                    let ch = self.peek().ok_or("unterminated string")?;
                    let p = self.pos();
                    self.bump();
                    text.push(ch);
                    if ch == b'\\' {
                        self.peek().ok_or("unterminated escape")?;
                        let e = self.bump();
                        text.push(e);
                    } else if ch == c {
                        return Ok(Node::Leaf { start, end: (p.0, p.1 + 1), text: String::from_utf8_lossy(&text).to_string() });
                    }
                }
            }
            b'#' => {
                self.bump();
                if self.peek() == Some(b'(') {
                    self.bump();
                    self.list(start, true)
                } else if self.peek().map(|c| Self::is_ws(c)).unwrap_or(true) || (in_list && self.peek() == Some(b')')) {
                    // "#" alone followed by a delimiter: the reader re-dispatches the delimiter in Bareword state
                    Err("lone # before a delimiter")
                } else {
                    Ok(self.bareword(start, in_list, vec![b'#']))
                }
            }
            b')' if in_list => Err("unexpected )"),
            _ => Ok(self.bareword(start, in_list, vec![])),
        }
    }
    fn list(&mut self, open: Pos, structured: bool) -> Result<Node, &'static str> {
        let mut items = vec![];
        let mut tail = None;
        let mut first = true;
        loop {
            self.skip_ws();
            let c = self.peek().ok_or("unterminated list")?;
            if c == b')' {
                let p = self.pos();
                self.bump();
                return Ok(Node::List { open, close_end: (p.0, p.1 + 1), items, tail, structured });
            }
            if c == b'.' {
                if first {
                    // "(." is rejected; "( ." is not (the OpenList state is left by the space)
                    if self.i > 0 && self.b[self.i - 1] == b'(' {
                        return Err("dot directly after open paren");
                    }
                }
                if structured {
                    return Err("dot in structured list");
                }
                self.bump();
                self.skip_ws();
                if self.peek() == Some(b')') || self.peek() == Some(b'.') || items.is_empty() {
                    return Err("degenerate dotted list");
                }
                let t = self.object(true)?;
                self.skip_ws();
                if self.peek() != Some(b')') {
                    return Err("object after dotted tail");
                }
                tail = Some(Box::new(t));
                continue;
            }
            first = false;
            if tail.is_some() {
                return Err("object after dotted tail");
            }
            items.push(self.object(true)?);
        }
    }
}

fn expected(text: &[u8]) -> Exp {
    let mut p = P { b: text, i: 0, line: 1, col: 1 };
    let mut forms = vec![];
    loop {
        p.skip_ws();
        if p.peek().is_none() {
            return Exp::Forms(forms);
        }
        if p.peek() == Some(b')') {
            return Exp::NotModelled("close paren at top level");
        }
        let before = p.i;
        match p.object(false) {
            Ok(n) => {
                let ended_at_eof = p.peek().is_none();
                let is_bare = matches!(&n, Node::Leaf { text, .. } if !text.starts_with('"') && !text.starts_with('\''));
                if ended_at_eof && is_bare && text[before] != b'(' {
                    // finalize() in the Bareword state returns only that atom
                    return Exp::Forms(vec![n]);
                }
                forms.push(n);
            }
            Err(e) => return Exp::NotModelled(e),
        }
    }
}

fn loc_span(l: &Srcloc) -> (Pos, Pos) {
    let s = (l.line, l.col);
    let e = match &l.until {
        Some(u) => (u.line, u.col),
        None => (l.line, l.col + 1),
    };
    (s, e)
}

#[derive(Debug)]
enum Mis {
    Shape(String),
    Loc(String, String), // (class, text)
}

fn cmp(node: &Node, v: &SExp, file: &str, out: &mut Vec<Mis>) {
    match node {
        Node::Leaf { start, end, text } => {
            if let SExp::Cons(_, _, _) = v {
                out.push(Mis::Shape(format!("expected leaf {:?}, reader has a pair", text)));
                return;
            }
            let l = v.loc();
            let (s, e) = loc_span(&l);
            if l.file.as_str() != file {
                out.push(Mis::Loc(leaf_class(text), format!("token {:?} at {:?}..{:?} is located in file {:?} ({})", text, start, end, l.file, l)));
            } else if s != *start || e != *end {
                out.push(Mis::Loc(leaf_class(text), format!("token {:?} occupies {:?}..{:?} but its location is {} = {:?}..{:?}", text, start, end, l, s, e)));
            }
        }
        Node::List { open, close_end, items, tail, structured } => {
            let inside = |l: &Srcloc, what: &str, out: &mut Vec<Mis>| {
                let (s, e) = loc_span(l);
                if l.file.as_str() != file {
                    out.push(Mis::Loc("list/wrong-file".to_string(), format!("{} of list at {:?} is located in file {:?}", what, open, l.file)));
                } else if s < *open || e > *close_end || s >= e {
                    out.push(Mis::Loc(format!("list/{}", if *structured { "structured" } else { "plain" }), format!("{} of the list spanning {:?}..{:?} has location {} = {:?}..{:?}", what, open, close_end, l, s, e)));
                }
            };
            if *structured {
                // #( a b c ): a balanced tree whose leaves are the items in order; only leaf spans and containment are checked
                let mut leaves = vec![];
                collect_structured(v, &mut leaves, &inside, out);
                if leaves.len() != items.len() {
                    out.push(Mis::Shape(format!("structured list with {} items read as {} leaves", items.len(), leaves.len())));
                    return;
                }
                for (n, l) in items.iter().zip(leaves.iter()) {
                    cmp(n, l, file, out);
                }
                return;
            }
            let mut cur: &SExp = v;
            for (i, it) in items.iter().enumerate() {
                match cur {
                    SExp::Cons(l, a, b) => {
                        inside(l, &format!("cons cell {}", i), out);
                        cmp(it, a, file, out);
                        cur = b;
                    }
                    other => {
                        out.push(Mis::Shape(format!("list item {} missing: reader has {}", i, other)));
                        return;
                    }
                }
            }
            match tail {
                Some(t) => cmp(t, cur, file, out),
                None => match cur {
                    SExp::Nil(l) => inside(l, "nil terminator", out),
                    other => out.push(Mis::Shape(format!("list not nil-terminated: {}", other))),
                },
            }
        }
    }
}

fn collect_structured<'a>(v: &'a SExp, leaves: &mut Vec<&'a SExp>, inside: &dyn Fn(&Srcloc, &str, &mut Vec<Mis>), out: &mut Vec<Mis>) {
    // restructure_list: empty -> Nil, one -> the item, else cons(left half, right half)
    match v {
        SExp::Cons(l, a, b) => {
            inside(l, "structured cons", out);
            // an item can itself be a list; we cannot tell structure cells from item cells by shape
            // alone, so only descend while the cell's location spans more than one item: approximated by
            // always descending, items that are lists are compared as shapes by the caller through leaves count
            collect_structured(a, leaves, inside, out);
            collect_structured(b, leaves, inside, out);
        }
        other => leaves.push(other),
    }
}

fn leaf_class(text: &str) -> String {
    if text.starts_with('#') {
        "leaf/hash-prefixed".to_string()
    } else if text.starts_with('"') || text.starts_with('\'') {
        "leaf/quoted".to_string()
    } else if text == "()" {
        "leaf/nil".to_string()
    } else {
        "leaf/bareword".to_string()
    }
}

fn text_bounds_ok(text: &[u8], l: &Srcloc, file: &str) -> bool {
    if l.file.as_str() != file {
        return false;
    }
    // lines of the text; a position is in bounds if it addresses a character of the text or the
    // position just after its last character
    let mut lines: Vec<usize> = vec![0];
    for c in text {
        if *c == b'\n' {
            lines.push(0);
        } else {
            *lines.last_mut().unwrap() += 1;
        }
    }
    let chk = |p: Pos| p.0 >= 1 && p.0 <= lines.len() && p.1 >= 1 && p.1 <= lines[p.0 - 1] + 1;
    let (s, e) = loc_span(l);
    chk(s) && (l.until.is_none() || (e.0 >= 1 && e.0 <= lines.len() + 1 && e.1 <= lines.get(e.0 - 1).copied().unwrap_or(0) + 2))
}

const FILE: &str = "*c15*";

fn check_text(st: &mut Stats, text: &[u8], sub: &str) {
    st.eval();
    let tv = text.to_vec();
    let whole = catch(move || parse_sexp(Srcloc::start(FILE), tv.iter().copied()));
    let tv = text.to_vec();
    let stepwise = catch(move || {
        let mut p = ParsePartialResult::new(Srcloc::start(FILE));
        for c in tv.iter() {
            p.push(*c)?;
        }
        p.finalize()
    });
    let shown = String::from_utf8_lossy(text).to_string();
    let replay = json!({"kind": "c15", "text_hex": hex::encode(text)});
    let (whole, stepwise) = match (whole, stepwise) {
        (Ok(w), Ok(s)) => (w, s),
        (w, s) => {
            st.violation(&format!("{}/reader-panic", sub), format!("reader panics on {:?}: {:?} {:?}", shown, w.err(), s.err()), text.len(), replay);
            return;
        }
    };
    if format!("{:?}", whole) != format!("{:?}", stepwise) {
        st.violation(&format!("{}/whole-vs-bytewise", sub), format!("text {:?}: parse_sexp gives {:?}, byte-at-a-time gives {:?}", shown, whole, stepwise), text.len(), replay.clone());
    }
    st.count("push-calls", text.len() as u64);
    match &whole {
        Err((l, msg)) => {
            st.outcome("reader-error");
            if !text_bounds_ok(text, l, FILE) {
                st.violation(&format!("{}/error-location-out-of-bounds", sub), format!("text {:?}: error {:?} located at {} which is outside the text", shown, msg, l), text.len(), replay);
            } else {
                st.count("error-locations-in-bounds", 1);
            }
        }
        Ok(forms) => match expected(text) {
            Exp::NotModelled(why) => {
                st.outcome(&format!("accepted/not-modelled({})", why));
            }
            Exp::Forms(nodes) => {
                if nodes.len() != forms.len() {
                    st.outcome("accepted/shape-not-modelled");
                    return;
                }
                let mut mis = vec![];
                for (n, f) in nodes.iter().zip(forms.iter()) {
                    cmp(n, f, FILE, &mut mis);
                }
                if mis.iter().any(|m| matches!(m, Mis::Shape(_))) {
                    st.outcome("accepted/shape-not-modelled");
                    return;
                }
                if mis.is_empty() {
                    st.outcome("accepted/locations-exact");
                    if !nodes.is_empty() {
                        st.nontrivial_by_index();
                        if text.len() >= 4 && nodes.iter().any(|n| matches!(n, Node::List { .. })) {
                            st.sample(json!({"text": shown, "parsed": forms.iter().map(|f| format!("{} @ {}", f, f.loc())).collect::<Vec<_>>()}));
                        }
                    }
                } else {
                    st.outcome("accepted/LOCATION-WRONG");
                    for m in mis {
                        if let Mis::Loc(class, t) = m {
                            st.violation(&format!("{}/{}", sub, class), format!("text {:?}: {}", shown, t), text.len(), replay.clone());
                        }
                    }
                }
            }
        },
    }
}

pub const SIGMA: [u8; 16] = [b'(', b')', b' ', b'\n', b'.', b';', b'"', b'\'', b'\\', b'#', b'a', b'q', b'1', b'-', b'0', b'x'];

pub fn c15(thorough: bool, replay: Option<String>) -> i32 {
    let mut rep = Report::new("C15", if thorough { "thorough" } else { "quick" }, "model_checking");
    rep.rule = "explicit-state exploration of the real reader: every string of the stated finite sets is fed to ParsePartialResult::push one byte at a time from the initial state and finalized (states = strings = reader states reached, transitions = push calls), and parsed whole; \
        an independent tokenizer in the harness computes each leaf token's (line, col, end) and each list's parentheses: every leaf location must equal its token's span exactly, every cons cell / nil of a list must lie between that list's parentheses, whole-text and byte-wise results must be identical including locations (compared through Debug), and every reader error location must lie inside the text. \
        Texts whose accepted shape the independent parser does not model are counted as such and make no claim. non-trivial = accepted non-empty texts whose every location was checked exact"
        .to_string();
    rep.assumptions = vec!["tab-free texts, as the property states".to_string(), "token boundaries follow the reader's documented lexical rules (a bareword ends at whitespace, or at ')' inside a list)".to_string()];
    if let Some(path) = replay {
        let v: serde_json::Value = serde_json::from_str(&std::fs::read_to_string(&path).expect("read replay")).expect("json");
        let t = hex::decode(v["replay"]["text_hex"].as_str().unwrap()).unwrap();
        let mut st = Stats::new();
        check_text(&mut st, &t, "replay");
        check_text(&mut st, &t, "replay");
        rep.states = 2;
        rep.transitions = 2 * t.len() as u64;
        rep.traces = 2;
        rep.add_sub("replay", "one case", 1, false, false, st);
        return rep.finish();
    }
    let cap = Some(Duration::from_secs(if thorough { 2400 } else { 40 }));
    let k = if thorough { 7 } else { 5 };
    let n = strings_upto_count(SIGMA.len(), k);
    let (st, capped) = par_range(n, 4096, cap, || (), |_, st, i| check_text(st, &strings_upto_get(&SIGMA, i), "sigma"));
    rep.states += st.evaluations;
    rep.transitions += st.counters.get("push-calls").copied().unwrap_or(0);
    rep.traces += st.evaluations;
    rep.add_sub("sigma-strings", &format!("every string of length 0..{} over the 16 symbols ( ) space newline . ; \" ' \\ # a q 1 - 0 x", k), n, true, capped, st);

    // token-level enumeration with separators; a second pass adds CR LF / form-feed separators and tokens with non-ASCII bytes
    for pass in 0..2 {
    let mut tokens: Vec<&str> = vec!["(", ")", ".", "abc", "-12", "0x1f", "\"s t\"", "'q\\'x'", "#(", "#c", "#zz", "12345678901234567890", "\"a\\\\\\\"b\"", "()", "x"];
    let mut seps: Vec<&str> = vec![" ", "\n", " ;c\n  ", ""];
    let mut kt = if thorough { 5 } else { 4 };
    if pass == 1 {
        tokens.extend(["caf\u{e9}", "\"\u{e9}\nx\"", "\"two\nlines\""]);
        seps.extend(["\r\n", "\u{c}", "\n\n ", " ;\u{e9}\r\n"]);
        kt -= 1;
    }
    let unit = (tokens.len() * seps.len()) as u64;
    let mut total = 0u64;
    let mut starts = vec![];
    for len in 1..=kt {
        starts.push(total);
        total += unit.pow(len as u32);
    }
    let (st, capped) = par_range(total, 1024, cap, || (), |_, st, i| {
        let mut len = 1;
        for (li, s) in starts.iter().enumerate() {
            if i >= *s {
                len = li + 1;
            }
        }
        let mut j = i - starts[len - 1];
        let mut text = String::new();
        for _ in 0..len {
            let u = (j % unit) as usize;
            j /= unit;
            text.push_str(tokens[u / seps.len()]);
            text.push_str(seps[u % seps.len()]);
        }
        check_text(st, text.as_bytes(), "tokens");
    });
    rep.states += st.evaluations;
    rep.transitions += st.counters.get("push-calls").copied().unwrap_or(0);
    rep.traces += st.evaluations;
    rep.add_sub(if pass == 0 { "token-sequences" } else { "token-sequences-extended" }, &format!("every sequence of 1..{} (token, separator) units over {} tokens {:?} and separators {:?}", kt, tokens.len(), tokens, seps), total, true, capped, st);
    }
    // dotted forms: ( item [item] sep . sep tail sep ) with every token kind as the tail and every separator
    // around the dot and before the closing parenthesis, alone and nested in a list
    {
        let items: Vec<&str> = vec!["abc", "-12", "0x1f", "\"s t\"", "'q'", "#c", "(x y)", "()", "x"];
        let tails: Vec<&str> = vec!["rest", "r", "-12", "12345678901234567890", "0x1f", "\"s t\"", "'q\\'x'", "#c", "#zz", "(x y)", "(x . yy)", "()", "caf\u{e9}"];
        let seps: Vec<&str> = vec![" ", "\n", " ;c\n  ", "  "];
        let closes: Vec<&str> = vec!["", " ", "\n"];
        let mut texts: Vec<String> = vec![];
        for i1 in &items {
            for two in [false, true] {
                for t in &tails {
                    for s1 in &seps {
                        for s2 in &seps {
                            for c in &closes {
                                let head = if two { format!("{} {}", i1, items[(texts.len() + 1) % items.len()]) } else { i1.to_string() };
                                let core = format!("({}{}.{}{}{})", head, s1, s2, t, c);
                                texts.push(core.clone());
                                if thorough {
                                    texts.push(format!("(mod {} (f a))", core));
                                }
                            }
                        }
                    }
                }
            }
        }
        let total = texts.len() as u64;
        let (st, capped) = par_range(total, 256, cap, || (), |_, st, i| check_text(st, texts[i as usize].as_bytes(), "dotted"));
        rep.states += st.evaluations;
        rep.transitions += st.counters.get("push-calls").copied().unwrap_or(0);
        rep.traces += st.evaluations;
        rep.add_sub("dotted-forms", &format!("( item [item] sep . sep tail close ) for 9 items x 13 tails (barewords of 1 and several characters, numbers, hex, both quote styles, #-tokens, lists, a dotted list, nil, a non-ASCII word) x 4 x 4 separators around the dot x 3 spacings before the closing parenthesis{}", if thorough { ", alone and as a parameter list" } else { "" }), total, true, capped, st);
    }
    rep.finish()
}

/// used by other engines: is this location inside the given text (named `file`)?
pub fn location_in_text(text: &[u8], l: &Srcloc, file: &str) -> bool {
    text_bounds_ok(text, l, file)
}

#[allow(dead_code)]
fn _unused(_: Rc<SExp>, _: T) {}

/// A harness-side reading of a program's parameter list (for generating argument trees for shipped
/// programs): returns the (mod PARAMS ...) parameter pattern, if the text has that shape.
pub fn mod_params(text: &[u8]) -> Option<crate::lang::Pat> {
    use crate::lang::Pat;
    fn to_pat(n: &Node) -> Option<Pat> {
        match n {
            Node::Leaf { text, .. } => {
                if text == "()" {
                    Some(Pat::Nil)
                } else if text.starts_with('"') || text.starts_with('\'') || text.chars().next().map(|c| c.is_ascii_digit()).unwrap_or(true) {
                    None
                } else {
                    Some(Pat::Name(text.clone()))
                }
            }
            Node::List { items, tail, .. } => {
                if items.len() == 3 {
                    if let Node::Leaf { text, .. } = &items[0] {
                        if text == "@" {
                            if let Node::Leaf { text: name, .. } = &items[1] {
                                return Some(Pat::At(name.clone(), Box::new(to_pat(&items[2])?)));
                            }
                        }
                    }
                }
                let mut ps = vec![];
                for i in items {
                    ps.push(to_pat(i)?);
                }
                let t = match tail {
                    Some(t) => to_pat(t)?,
                    None => Pat::Nil,
                };
                Some(Pat::list_tail(ps, t))
            }
        }
    }
    match expected(text) {
        Exp::Forms(forms) => {
            let f = forms.first()?;
            if let Node::List { items, .. } = f {
                if let Some(Node::Leaf { text, .. }) = items.first() {
                    if text == "mod" && items.len() >= 3 {
                        return to_pat(&items[1]);
                    }
                }
            }
            None
        }
        _ => None,
    }
}
