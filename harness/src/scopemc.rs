//! C10 — ill-scoped programs are rejected, never miscompiled, never loop the compiler.
//! Exhaustive single-defect injection into well-scoped generated programs; every case is
//! compiled in an isolated worker process under a wall-clock watchdog.
use crate::gen::*;
use crate::lang::*;
use crate::par::{par_range_proc, run_worker, worker_args, Death};
use crate::progmc::{dialect_of, entry_option_sets};
use crate::report::{Report, Stats};
use crate::subject::*;
use serde_json::json;
use std::time::Duration;

const UNBOUND: &str = "ZZ9UNBOUND";
const STRICT: [&str; 4] = ["*strict-cl-21*", "*standard-cl-23*", "*standard-cl-23.1*", "*standard-cl-24*"];

#[derive(Clone)]
struct Defect {
    class: String,
    text: String,
    twin: String,
    sigil: &'static str,
    /// identifiers one of which the error message must mention
    must_name: Vec<String>,
}

// ---- (i) unbound name at every variable-use position

fn count_vars(e: &E, macro_params: &[String]) -> usize {
    let mut n = 0;
    walk_vars(e, macro_params, &mut |_| n += 1);
    n
}

fn walk_vars(e: &E, mp: &[String], f: &mut dyn FnMut(&E)) {
    match e {
        E::Var(n) => {
            if !mp.contains(n) {
                f(e)
            }
        }
        E::Lit(_, _) | E::Quote(_) | E::QuoteSym(_) => {}
        E::Prim(_, a) | E::List(a) | E::MacroCall(_, a) => a.iter().for_each(|x| walk_vars(x, mp, f)),
        E::If(c, t, x) => {
            walk_vars(c, mp, f);
            walk_vars(t, mp, f);
            walk_vars(x, mp, f);
        }
        E::Call(_, a, r) => {
            a.iter().for_each(|x| walk_vars(x, mp, f));
            if let Some(r) = r {
                walk_vars(r, mp, f);
            }
        }
        E::Let(_, bs, b) => {
            bs.iter().for_each(|(_, x)| walk_vars(x, mp, f));
            walk_vars(b, mp, f);
        }
        E::Assign(_, bs, b) => {
            bs.iter().for_each(|(_, x)| walk_vars(x, mp, f));
            walk_vars(b, mp, f);
        }
        E::Lambda(_, _, b) => walk_vars(b, mp, f),
        E::Apply(a, b) => {
            walk_vars(a, mp, f);
            walk_vars(b, mp, f);
        }
        E::ApplyMod(_, a) => walk_vars(a, mp, f),
    }
}

/// replace the k-th variable use (pre-order) by the unbound name; `k` counts down in place
fn replace_kth(e: &E, mp: &[String], k: &mut i64) -> E {
    let mut r = |x: &E, k: &mut i64| replace_kth(x, mp, k);
    match e {
        E::Var(n) => {
            if mp.contains(n) {
                return e.clone();
            }
            *k -= 1;
            if *k == -1 {
                E::v(UNBOUND)
            } else {
                e.clone()
            }
        }
        E::Lit(_, _) | E::Quote(_) | E::QuoteSym(_) => e.clone(),
        E::Prim(op, a) => E::Prim(op.clone(), a.iter().map(|x| r(x, k)).collect()),
        E::List(a) => E::List(a.iter().map(|x| r(x, k)).collect()),
        E::MacroCall(n, a) => E::MacroCall(n.clone(), a.iter().map(|x| r(x, k)).collect()),
        E::If(c, t, x) => {
            let c2 = r(c, k);
            let t2 = r(t, k);
            let x2 = r(x, k);
            E::If(Box::new(c2), Box::new(t2), Box::new(x2))
        }
        E::Call(f, a, rest) => {
            let a2 = a.iter().map(|x| r(x, k)).collect();
            let r2 = rest.as_ref().map(|x| Box::new(r(x, k)));
            E::Call(f.clone(), a2, r2)
        }
        E::Let(kind, bs, b) => {
            let bs2 = bs.iter().map(|(n, x)| (n.clone(), r(x, k))).collect();
            let b2 = r(b, k);
            E::Let(kind.clone(), bs2, Box::new(b2))
        }
        E::Assign(kind, bs, b) => {
            let bs2 = bs.iter().map(|(p, x)| (p.clone(), r(x, k))).collect();
            let b2 = r(b, k);
            E::Assign(kind.clone(), bs2, Box::new(b2))
        }
        E::Lambda(c, p, b) => E::Lambda(c.clone(), p.clone(), Box::new(r(b, k))),
        E::Apply(a, b) => {
            let a2 = r(a, k);
            let b2 = r(b, k);
            E::Apply(Box::new(a2), Box::new(b2))
        }
        E::ApplyMod(p, a) => E::ApplyMod(p.clone(), Box::new(r(a, k))),
    }
}

fn unbound_defects(case: &Case, out: &mut Vec<Defect>) {
    // positions: main body, every function body, every macro template (its non-parameter variables and, separately,
    // each parameter occurrence replaced by a literal unbound name)
    let mut sites: Vec<(String, usize)> = vec![("main".to_string(), count_vars(&case.prog.body, &[]))];
    for (hi, h) in case.prog.helpers.iter().enumerate() {
        match h {
            Helper::Fun { body, .. } => sites.push((format!("helper{}", hi), count_vars(body, &[]))),
            Helper::Macro { template, .. } => sites.push((format!("template{}", hi), count_vars(template, &[]))),
            _ => {}
        }
    }
    for sigil in STRICT {
        let mut twin = case.prog.clone();
        twin.sigil = Some(sigil);
        for (site, n) in &sites {
            for k in 0..*n {
                let mut p = twin.clone();
                let mut kk = k as i64;
                if site == "main" {
                    p.body = replace_kth(&p.body, &[], &mut kk);
                } else {
                    let hi: usize = site.trim_start_matches("helper").trim_start_matches("template").parse().unwrap();
                    match &mut p.helpers[hi] {
                        Helper::Fun { body, .. } => *body = replace_kth(body, &[], &mut kk),
                        Helper::Macro { template, .. } => *template = replace_kth(template, &[], &mut kk),
                        _ => {}
                    }
                }
                let class = if site.starts_with("template") { "unbound-in-macro-template" } else { "unbound-name" };
                out.push(Defect { class: format!("{}/{}", class, case.tags.first().cloned().unwrap_or_default().trim_end_matches(|c| c == '0' || c == '1')), text: p.text(), twin: twin.text(), sigil, must_name: vec![UNBOUND.to_string()] });
            }
        }
    }
}

fn duplicate_defects(case: &Case, out: &mut Vec<Defect>) {
    for sigil in SIGILS {
        let mut twin = case.prog.clone();
        twin.sigil = Some(sigil);
        for h in &case.prog.helpers {
            if let Helper::Fun { name, inline, .. } = h {
                for dup_inline in [false, true] {
                    let mut p = twin.clone();
                    p.helpers.push(Helper::Fun { name: name.clone(), inline: dup_inline, params: Pat::list(vec![Pat::n("DUPX")]), body: E::v("DUPX") });
                    out.push(Defect { class: format!("duplicate-function/{}-then-{}", if *inline { "inline" } else { "defun" }, if dup_inline { "inline" } else { "defun" }), text: p.text(), twin: twin.text(), sigil, must_name: vec![name.clone()] });
                }
            }
        }
    }
}

fn inline_cycle_defects(max_n: usize, out: &mut Vec<Defect>) {
    for sigil in SIGILS {
      for placement in 0..3usize {
        for n in 1..=max_n {
            // placement of the back edge: 0 = plain element, 1 = the &rest tail of a call to a defun, 2 = nested inside a list inside that tail
            let mk = |back: Option<(usize, usize)>| -> Prog {
                let mut helpers = vec![];
                for i in 0..n {
                    let mut items = vec![E::v("X")];
                    if i + 1 < n {
                        items.push(E::call(&format!("I{}", i + 1), vec![E::prim("+", vec![E::v("X"), E::int(1)])]));
                    }
                    // the same shape with and without the back edge: the twin passes plain X where the cycle would call back
                    if back.map(|b| b.0 == i).unwrap_or(false) || (back.is_none() && i + 1 == n) {
                        let inner = match back {
                            Some((_, to)) => E::call(&format!("I{}", to), vec![E::prim("r", vec![E::v("X")])]),
                            None => E::prim("r", vec![E::v("X")]),
                        };
                        match placement {
                            0 => items.push(inner),
                            1 => items.push(E::Call("HD".into(), vec![E::v("X")], Some(Box::new(inner)))),
                            _ => items.push(E::Call("HD".into(), vec![E::v("X")], Some(Box::new(E::List(vec![E::int(5), inner]))))),
                        }
                    }
                    helpers.push(Helper::Fun { name: format!("I{}", i), inline: true, params: Pat::list(vec![Pat::n("X")]), body: E::List(items) });
                }
                if placement > 0 {
                    helpers.push(Helper::Fun { name: "HD".into(), inline: false, params: Pat::list_tail(vec![Pat::n("P")], Pat::n("R")), body: E::prim("c", vec![E::v("P"), E::v("R")]) });
                }
                Prog { sigil: Some(sigil), params: Pat::list(vec![Pat::n("A")]), helpers, body: E::call("I0", vec![E::v("A")]) }
            };
            let twin = mk(None).text();
            for from in 0..n {
                for to in 0..=from {
                    let p = mk(Some((from, to)));
                    let names: Vec<String> = (to..=from).map(|i| format!("I{}", i)).collect();
                    out.push(Defect { class: format!("inline-cycle/length{}/{}", from - to + 1, ["plain", "in-rest-tail", "nested-in-rest-tail"][placement]), text: p.text(), twin: twin.clone(), sigil, must_name: names });
                }
            }
        }
      }
    }
}

fn assign_defects(thorough: bool, out: &mut Vec<Defect>) {
    let names = ["X", "Y", "Z"];
    for sigil in SIGILS {
        // identifier policy: lower-case names that are also quotation keywords next to the names that carry the defect
        for lookalike in [None, Some("q"), Some("quote")] {
            if lookalike.is_none() {
                continue;
            }
            let lk = lookalike.unwrap();
            for kind in [AssignKind::Plain, AssignKind::Inline, AssignKind::Lambda] {
                let tag = format!("{:?}/next-to-a-variable-named-{}", kind, lk);
                let params = Pat::list(vec![Pat::n("A"), Pat::n(lk)]);
                // a two-binding cycle whose expressions mention the lookalike variable before the back edge
                let cyc = |broken: bool| Prog {
                    sigil: Some(sigil),
                    params: params.clone(),
                    helpers: vec![],
                    body: E::Assign(
                        kind.clone(),
                        vec![(Pat::n("X"), E::List(if broken { vec![E::v("A"), E::v(lk), E::v("Y")] } else { vec![E::v("A"), E::v(lk)] })), (Pat::n("Y"), E::List(vec![E::v(lk), E::v("X")]))],
                        Box::new(E::List(vec![E::v("X"), E::v("Y")])),
                    ),
                };
                out.push(Defect { class: format!("assign-cycle/{}", tag), text: cyc(true).text(), twin: cyc(false).text(), sigil, must_name: vec!["X".into(), "Y".into()] });
                // a name bound twice: once inside a destructuring pattern that also binds the lookalike name before it
                let dup = |broken: bool| Prog {
                    sigil: Some(sigil),
                    params: Pat::list(vec![Pat::n("A")]),
                    helpers: vec![],
                    body: E::Assign(
                        kind.clone(),
                        vec![(Pat::list(vec![Pat::n("P"), Pat::n(lk), Pat::n("X")]), E::List(vec![E::v("A"), E::v("A"), E::v("A")])), (Pat::n(if broken { "X" } else { "Y" }), E::List(vec![E::v("A")]))],
                        Box::new(E::List(vec![E::v("X"), E::v("P"), E::v(lk)])),
                    ),
                };
                out.push(Defect { class: format!("assign-duplicate/{}", tag), text: dup(true).text(), twin: dup(false).text(), sigil, must_name: vec!["X".into()] });
            }
        }
        // a cycle one of whose edges is carried by a value that ALSO rebinds the sibling's name in an inner scope
        // (let binding / lambda parameter): the free use still makes it a dependency
        for kind in [AssignKind::Plain, AssignKind::Inline, AssignKind::Lambda] {
            for inner in ["let", "lambda-parameter"] {
                let shadowing = |free_use: bool| -> E {
                    let inner_e = if inner == "let" {
                        E::Let(LetKind::Let, vec![("Y".into(), E::int(1))], Box::new(E::prim("c", vec![E::v("Y"), E::int(2)])))
                    } else {
                        E::Apply(Box::new(E::Lambda(vec![], Pat::list(vec![Pat::n("Y")]), Box::new(E::prim("c", vec![E::v("Y"), E::int(2)])))), Box::new(E::List(vec![E::int(1)])))
                    };
                    let mut items = vec![E::v("A")];
                    if free_use {
                        items.push(E::v("Y"));
                    }
                    items.push(inner_e);
                    E::List(items)
                };
                let mk = |cyclic: bool| Prog {
                    sigil: Some(sigil),
                    params: Pat::list(vec![Pat::n("A")]),
                    helpers: vec![],
                    body: E::Assign(kind.clone(), vec![(Pat::n("X"), shadowing(true)), (Pat::n("Y"), if cyclic { E::List(vec![E::v("X")]) } else { E::List(vec![E::v("A")]) })], Box::new(E::List(vec![E::v("X"), E::v("Y")]))),
                };
                out.push(Defect { class: format!("assign-cycle/{:?}/edge-next-to-an-inner-rebinding-by-{}", kind, inner), text: mk(true).text(), twin: mk(false).text(), sigil, must_name: vec!["X".into(), "Y".into()] });
            }
        }
        for kind in [AssignKind::Plain, AssignKind::Inline, AssignKind::Lambda] {
            let nb = if thorough { 3 } else { 2 };
            // every dependency digraph over nb bindings: binding i depends on subset mask_i of the bound names
            let total = 1u32 << (nb * nb);
            for g in 0..total {
                let deps: Vec<Vec<usize>> = (0..nb).map(|i| (0..nb).filter(|j| (g >> (i * nb + j)) & 1 == 1).collect()).collect();
                // cyclic?
                let mut done = vec![false; nb];
                for _ in 0..nb {
                    for i in 0..nb {
                        if !done[i] && deps[i].iter().all(|j| done[*j]) {
                            done[i] = true;
                        }
                    }
                }
                let cyclic = done.iter().any(|d| !*d);
                if !cyclic {
                    continue;
                }
                let mk = |deps: &Vec<Vec<usize>>| -> Prog {
                    let bs: Vec<(Pat, E)> = (0..nb)
                        .map(|i| {
                            let mut items = vec![E::v("A")];
                            items.extend(deps[i].iter().map(|j| E::v(names[*j])));
                            (Pat::n(names[i]), E::List(items))
                        })
                        .collect();
                    Prog { sigil: Some(sigil), params: Pat::list(vec![Pat::n("A")]), helpers: vec![], body: E::Assign(kind.clone(), bs, Box::new(E::List((0..nb).map(|i| E::v(names[i])).collect()))) }
                };
                // repaired twin: drop every dependency edge
                let twin = mk(&vec![vec![]; nb]);
                out.push(Defect { class: format!("assign-cycle/{:?}", kind), text: mk(&deps).text(), twin: twin.text(), sigil, must_name: names[..nb].iter().map(|s| s.to_string()).collect() });
            }
            // repeated names
            for (a, b) in [(0usize, 0usize), (0, 1)] {
                if a != b {
                    continue;
                }
                let bs = vec![(Pat::n(names[a]), E::v("A")), (Pat::n(names[b]), E::List(vec![E::v("A")]))];
                let p = Prog { sigil: Some(sigil), params: Pat::list(vec![Pat::n("A")]), helpers: vec![], body: E::Assign(kind.clone(), bs, Box::new(E::v(names[a]))) };
                let tw = Prog { sigil: Some(sigil), params: Pat::list(vec![Pat::n("A")]), helpers: vec![], body: E::Assign(kind.clone(), vec![(Pat::n("X"), E::v("A")), (Pat::n("Y"), E::List(vec![E::v("A")]))], Box::new(E::v("X"))) };
                out.push(Defect { class: format!("assign-duplicate/{:?}", kind), text: p.text(), twin: tw.text(), sigil, must_name: vec![names[a].to_string()] });
                // duplicate inside one destructuring pattern
                let bs2 = vec![(Pat::Cons(Box::new(Pat::n("X")), Box::new(Pat::n("X"))), E::prim("c", vec![E::v("A"), E::v("A")]))];
                let p2 = Prog { sigil: Some(sigil), params: Pat::list(vec![Pat::n("A")]), helpers: vec![], body: E::Assign(kind.clone(), bs2, Box::new(E::v("X"))) };
                out.push(Defect { class: format!("assign-duplicate-in-pattern/{:?}", kind), text: p2.text(), twin: tw.text(), sigil, must_name: vec!["X".to_string()] });
            }
        }
    }
}

fn all_defects(thorough: bool) -> Vec<Defect> {
    let mut out = vec![];
    let mut chains = scope_chains(if thorough { 2 } else { 1 });
    if !thorough {
        // a function whose body contains a conditional (or a let): the duplicate-definition defects need a second binder
        for c in scope_chains(2) {
            let kinds: Vec<&str> = c.iter().map(|(b, _)| BINDERS[*b]).collect();
            if c.len() == 2 && c[0].1 == c[1].1 && ["defun", "inline"].contains(&kinds[0]) && ["if-branch", "let", "lambda-capture"].contains(&kinds[1]) {
                chains.push(c);
            }
        }
    }
    for c in &chains {
        // quick: length-1 chains, both variants; thorough: length <= 2 with equal variants
        if c.len() == 2 && c[0].1 != c[1].1 {
            continue;
        }
        let case = scope_case(c, NamePolicy::Fresh, None);
        unbound_defects(&case, &mut out);
        duplicate_defects(&case, &mut out);
    }
    for case in calls_cases(None, 2) {
        if case.tags[0].starts_with("calls/recursion") || case.tags[0].starts_with("calls/chain") && case.tags[2] == "rest-at1" {
            unbound_defects(&case, &mut out);
            duplicate_defects(&case, &mut out);
        }
    }
    inline_cycle_defects(if thorough { 4 } else { 3 }, &mut out);
    assign_defects(thorough, &mut out);
    out
}

/// The texts of the ill-scoped programs of the inline-cycle, duplicate-definition and assign classes (for C14:
/// every front end must survive them, not only the compiler).
pub fn ill_scoped_texts(thorough: bool) -> Vec<String> {
    let mut out = vec![];
    inline_cycle_defects(if thorough { 4 } else { 3 }, &mut out);
    assign_defects(thorough, &mut out);
    let mut texts: Vec<String> = out.into_iter().filter(|d| thorough || d.sigil == SIGILS[0] || d.sigil == SIGILS[3] || d.sigil == SIGILS[1]).map(|d| d.text).collect();
    texts.sort();
    texts.dedup();
    texts
}

fn check_defect(st: &mut Stats, d: &Defect) {
    let dialect = dialect_of(d.sigil);
    for (optname, o) in entry_option_sets(d.sigil) {
        if d.sigil == "*strict-cl-21*" && optname != "run" {
            continue; // strict-cl21 under optimisation is known finding F14: checked in its working configuration
        }
        st.eval();
        let replay = json!({"kind": "c10", "text": d.text, "twin": d.twin, "sigil": d.sigil, "opts": optname});
        let cls = d.class.split('/').next().unwrap_or("").to_string();
        match modern_compile(&d.text, dialect.clone(), &o) {
            Ok(c) => {
                st.outcome(&format!("{}:ACCEPTED", cls));
                st.violation(&format!("accepted/{}", if cls == "unbound-in-macro-template" { cls.clone() } else { d.class.clone() }), format!("{} [{}] compiles (to {}) although it is ill-scoped ({})", d.text, optname, c.code.short(), d.class), d.text.len(), replay);
            }
            Err(e) if e.is_panic() => {
                st.outcome(&format!("{}:PANIC", cls));
                st.violation(&format!("panic/{}", d.class), format!("{} [{}]: {}", d.text, optname, e.msg()), d.text.len(), replay);
            }
            Err(e) => {
                let msg = e.msg();
                // "names the offending identifier or form": the assign resolver reports its form ("binding order")
                let names_form = d.class.starts_with("assign-cycle") && msg.contains("binding");
                if names_form || d.must_name.iter().any(|n| msg.contains(n.as_str())) {
                    st.outcome(&format!("{}:rejected-naming-the-identifier", cls));
                    st.nontrivial(&(&d.text, optname));
                    st.sample(json!({"class": d.class, "program": d.text, "opts": optname, "error": msg}));
                } else {
                    st.outcome(&format!("{}:rejected-WITHOUT-naming", cls));
                    let sig = if d.sigil == "*standard-cl-22*" {
                        format!("cl22/unnamed-error/{}", cls)
                    } else if cls == "duplicate-function" && msg.contains("Unbound use of lambda_$_") {
                        "unnamed-error/duplicate-function/reported-as-unbound-lambda".to_string()
                    } else if cls == "duplicate-function" && msg.contains("no such callable") {
                        "unnamed-error/duplicate-function/reported-as-no-such-callable".to_string()
                    } else {
                        format!("unnamed-error/{}", d.class)
                    };
                    st.violation(&sig, format!("{} [{}] is rejected with {:?}, which names none of {:?}", d.text, optname, msg, d.must_name), d.text.len(), replay.clone());
                }
                // the repaired twin must compile
                match modern_compile(&d.twin, dialect.clone(), &o) {
                    Ok(_) => st.count("twin-compiles", 1),
                    Err(e2) => {
                        st.outcome("TWIN-REJECTED");
                        let sig = if d.sigil == "*standard-cl-22*" { format!("cl22/twin-rejected/{}", cls) } else { format!("twin-rejected/{}", d.class) };
                        st.violation(&sig, format!("the program without the defect, {} [{}], does not compile either: {}", d.twin, optname, e2.msg()), d.twin.len(), replay);
                    }
                }
            }
        }
    }
}

pub fn c10(thorough: bool, replay: Option<String>) -> i32 {
    let tier = if thorough { "thorough" } else { "quick" };
    let defects = all_defects(thorough);
    if let Some(w) = worker_args() {
        run_worker(w.lo, w.hi, 10_000, move |st, i| check_defect(st, &defects[i as usize]));
    }
    let mut rep = Report::new("C10", tier, "exploration");
    rep.rule = "every well-scoped generated program x every single injected defect, enumerated exhaustively: (i) a fresh unbound name at each variable-use position (main body, function / inline / lambda body, let / assign binding, &rest tail, macro template) under the 4 strict sigils; (ii) a second defun / defun-inline with the name of each existing function, 4 kind combinations, 6 sigils; (iii) inline-only call chains over <= 3 (thorough 4) inlines with every back edge (cycle length 1..n); (iv) every cyclic dependency digraph and every repeated name of an assign with <= 2 (3) bindings, 3 assign kinds, 6 sigils. \
        Each is compiled (both entry option sets) in an isolated worker (10 s wall limit): it must be rejected with a message naming the offending identifier, and the same program without the defect must compile. Accepting, hanging or killing the worker is a violation. non-trivial = distinct defective programs rejected with a message naming the identifier"
        .to_string();
    rep.assumptions = vec!["strict-cl21 is exercised in its working configuration (optimize off): its optimised configuration is known finding F14".to_string()];
    if let Some(path) = replay {
        let v: serde_json::Value = serde_json::from_str(&std::fs::read_to_string(&path).expect("read replay")).expect("json");
        let r = &v["replay"];
        let sigil = SIGILS.iter().copied().find(|s| Some(*s) == r["sigil"].as_str()).unwrap_or(SIGILS[0]);
        let d = Defect { class: "replay".into(), text: r["text"].as_str().unwrap_or("").to_string(), twin: r["twin"].as_str().unwrap_or("").to_string(), sigil, must_name: vec![UNBOUND.to_string(), "I0".into(), "X".into()] };
        let mut st = Stats::new();
        check_defect(&mut st, &d);
        check_defect(&mut st, &d);
        rep.add_sub("replay", "one case (in-process)", 1, false, false, st);
        return rep.finish();
    }
    let cap = Some(Duration::from_secs(if thorough { 3000 } else { 50 }));
    let n = defects.len() as u64;
    let mut deaths = vec![];
    let (mut st, capped) = par_range_proc("C10", tier, "defects", n, 150, cap, &mut deaths);
    for d in deaths {
        let (i, kind, status) = match d {
            Death::Hang(i) => (i, "hang", String::new()),
            Death::Crash(i, s) => (i, "abort", s),
        };
        let df = &defects[i as usize];
        if !crate::par::death_reproduces("C10", tier, "defects", i) {
            st.count("worker-death-not-reproduced(machinery, no verdict)", 1);
            continue;
        }
        st.violation(&format!("{}/{}", kind, df.class), format!("compiler {} on {} ({}) {}", kind, df.text, df.class, status), df.text.len(), json!({"kind": "c10", "text": df.text, "twin": df.twin, "sigil": df.sigil}));
    }
    rep.add_sub("defects", &format!("{} defective programs (see rule)", n), n, true, capped, st);
    rep.finish()
}
