//! Evidence, violation and known-finding bookkeeping shared by all engines.
use serde_json::{json, Map, Value};
use std::collections::{BTreeMap, HashSet};
use std::time::Instant;

pub fn verif_root() -> String {
    std::env::var("VERIF_ROOT").unwrap_or_else(|_| "/verif".to_string())
}

#[derive(Clone, Debug)]
pub struct Violation {
    /// Classifier signature: names the *class* of failing input / call site, as
    /// narrow as the engine can make it. Known findings match on this.
    pub sig: String,
    /// One-line human description with the concrete witness.
    pub what: String,
    /// Size used to keep the smallest witness per signature.
    pub size: usize,
    /// Everything needed to re-execute the case (`vmc <id> --replay file`).
    pub replay: Value,
}

/// Per-thread (mergeable) statistics for one sub-space.
#[derive(Default, Clone)]
pub struct Stats {
    pub evaluations: u64,
    pub outcomes: BTreeMap<String, u64>,
    pub nontrivial: HashSet<u64>,
    /// cases that are distinct by construction (one per enumeration index): counted, not hashed
    pub nontrivial_n: u64,
    pub counters: BTreeMap<String, u64>,
    pub samples: Vec<Value>,
    pub violations: Vec<Violation>,
    pub max_samples: usize,
}

impl Stats {
    pub fn new() -> Stats {
        Stats { max_samples: 4, ..Default::default() }
    }
    pub fn eval(&mut self) {
        self.evaluations += 1;
    }
    pub fn outcome(&mut self, k: &str) {
        *self.outcomes.entry(k.to_string()).or_insert(0) += 1;
    }
    pub fn count(&mut self, k: &str, n: u64) {
        *self.counters.entry(k.to_string()).or_insert(0) += n;
    }
    pub fn nontrivial<H: std::hash::Hash>(&mut self, h: &H) {
        use std::hash::Hasher;
        let mut s = std::collections::hash_map::DefaultHasher::new();
        h.hash(&mut s);
        self.nontrivial.insert(s.finish());
    }
    pub fn nontrivial_by_index(&mut self) {
        self.nontrivial_n += 1;
    }
    pub fn nt(&self) -> u64 {
        self.nontrivial.len() as u64 + self.nontrivial_n
    }
    pub fn sample(&mut self, v: Value) {
        if self.samples.len() < self.max_samples {
            self.samples.push(v);
        }
    }
    pub fn violation(&mut self, sig: &str, what: String, size: usize, replay: Value) {
        // keep the smallest witness per signature, and at most a handful
        if let Some(v) = self.violations.iter_mut().find(|v| v.sig == sig) {
            if size < v.size {
                v.what = what;
                v.size = size;
                v.replay = replay;
            }
            *self.counters.entry(format!("violations[{}]", sig)).or_insert(0) += 1;
            return;
        }
        *self.counters.entry(format!("violations[{}]", sig)).or_insert(0) += 1;
        self.violations.push(Violation { sig: sig.to_string(), what, size, replay });
    }
    pub fn merge(&mut self, o: Stats) {
        self.evaluations += o.evaluations;
        for (k, v) in o.outcomes {
            *self.outcomes.entry(k).or_insert(0) += v;
        }
        for (k, v) in o.counters {
            *self.counters.entry(k).or_insert(0) += v;
        }
        self.nontrivial.extend(o.nontrivial);
        self.nontrivial_n += o.nontrivial_n;
        for s in o.samples {
            if self.samples.len() < self.max_samples.max(4) {
                self.samples.push(s);
            }
        }
        for v in o.violations {
            if let Some(m) = self.violations.iter_mut().find(|m| m.sig == v.sig) {
                if v.size < m.size {
                    *m = v;
                }
            } else {
                self.violations.push(v);
            }
        }
    }
}

pub struct Sub {
    pub name: String,
    pub bound: String,
    pub exhaustive: bool,
    pub capped: bool,
    pub space: u64,
    pub stats: Stats,
    pub extra: Map<String, Value>,
}

pub struct Report {
    pub id: String,
    pub tier: String,
    pub seed: i64,
    pub level: String,
    pub rule: String,
    pub assumptions: Vec<String>,
    pub subs: Vec<Sub>,
    pub start: Instant,
    pub states: u64,
    pub transitions: u64,
    pub traces: u64,
    pub extra: Map<String, Value>,
}

pub struct Known {
    pub property: String,
    pub sig: String,
    pub what: String,
}

pub fn load_known() -> Vec<Known> {
    let path = std::env::var("VERIF_KNOWN").unwrap_or_else(|_| format!("{}/known_findings.json", verif_root()));
    let txt = match std::fs::read_to_string(&path) {
        Ok(t) => t,
        Err(_) => return vec![],
    };
    let v: Value = serde_json::from_str(&txt).expect("known_findings.json must parse");
    let mut out = vec![];
    if let Some(arr) = v.get("known").and_then(|k| k.as_array()) {
        for e in arr {
            out.push(Known {
                property: e["property"].as_str().unwrap_or("").to_string(),
                sig: e["sig"].as_str().unwrap_or("").to_string(),
                what: e["what"].as_str().unwrap_or("").to_string(),
            });
        }
    }
    out
}

fn sanitize(s: &str) -> String {
    s.chars().map(|c| if c.is_ascii_alphanumeric() || c == '-' || c == '_' || c == '.' { c } else { '_' }).collect()
}

impl Report {
    pub fn new(id: &str, tier: &str, level: &str) -> Report {
        let seed = std::env::var("VERIF_SEED").ok().and_then(|s| s.parse::<i64>().ok()).unwrap_or(0);
        Report {
            id: id.to_string(),
            tier: tier.to_string(),
            seed,
            level: level.to_string(),
            rule: String::new(),
            assumptions: vec![],
            subs: vec![],
            start: Instant::now(),
            states: 0,
            transitions: 0,
            traces: 0,
            extra: Map::new(),
        }
    }
    pub fn elapsed(&self) -> f64 {
        self.start.elapsed().as_secs_f64()
    }
    pub fn add_sub(&mut self, name: &str, bound: &str, space: u64, exhaustive: bool, capped: bool, stats: Stats) {
        eprintln!(
            "[{}] sub-space {}: space={} evaluations={} distinct_nontrivial={} exhaustive={} capped={} violations={} outcomes={:?} ({:.1}s)",
            self.id,
            name,
            space,
            stats.evaluations,
            stats.nt(),
            exhaustive,
            capped,
            stats.violations.len(),
            stats.outcomes,
            self.elapsed()
        );
        self.subs.push(Sub {
            name: name.to_string(),
            bound: bound.to_string(),
            exhaustive: exhaustive && !capped,
            capped,
            space,
            stats,
            extra: Map::new(),
        });
    }

    /// Writes evidence + replay files, prints the contract lines, returns exit code.
    pub fn finish(self) -> i32 {
        let known = load_known();
        let mut new_violations = vec![];
        let mut known_hits = vec![];
        for sub in &self.subs {
            for v in &sub.stats.violations {
                if let Some(k) = known.iter().find(|k| k.property == self.id && k.sig == v.sig) {
                    known_hits.push((sub.name.clone(), v.clone(), k.what.clone()));
                } else {
                    new_violations.push((sub.name.clone(), v.clone()));
                }
            }
        }
        let rdir = format!("{}/replay/{}", verif_root(), self.id);
        let _ = std::fs::create_dir_all(&rdir);
        // stale replay files of earlier runs are removed so the directory reflects this run
        if let Ok(rd) = std::fs::read_dir(&rdir) {
            for e in rd.flatten() {
                if e.file_name().to_string_lossy().starts_with("violation-") {
                    let _ = std::fs::remove_file(e.path());
                }
            }
        }
        let mut vio_json = vec![];
        let mut seen_known = HashSet::new();
        for (subn, v, what) in &known_hits {
            if seen_known.insert(v.sig.clone()) {
                println!("KNOWN-FINDING: property={} {} [{}] witness: {}", self.id, what, v.sig, v.what);
            }
            let _ = subn;
        }
        for (subn, v) in &new_violations {
            let path = format!("{}/violation-{}.json", rdir, sanitize(&v.sig));
            let body = json!({"property": self.id, "sub_space": subn, "sig": v.sig, "what": v.what, "replay": v.replay});
            std::fs::write(&path, serde_json::to_string_pretty(&body).unwrap()).expect("write replay");
            println!("VIOLATION property={} replay={}", self.id, path);
            println!("  [{}] {}", v.sig, v.what);
            vio_json.push(json!({"sig": v.sig, "what": v.what, "replay": path}));
        }

        let mut evaluations = 0u64;
        let mut nontrivial = 0u64;
        let mut samples = vec![];
        let mut subs_json = vec![];
        let mut all_exh = true;
        for sub in &self.subs {
            evaluations += sub.stats.evaluations;
            nontrivial += sub.stats.nt();
            for s in sub.stats.samples.iter().take(3) {
                samples.push(json!({"sub_space": sub.name, "case": s}));
            }
            all_exh &= sub.exhaustive;
            let mut m = Map::new();
            m.insert("name".into(), json!(sub.name));
            m.insert("bound".into(), json!(sub.bound));
            m.insert("space".into(), json!(sub.space));
            m.insert("evaluations".into(), json!(sub.stats.evaluations));
            m.insert("distinct_nontrivial".into(), json!(sub.stats.nt()));
            m.insert("exhaustive".into(), json!(sub.exhaustive));
            m.insert("capped".into(), json!(sub.capped));
            m.insert("outcomes".into(), json!(sub.stats.outcomes));
            m.insert("counters".into(), json!(sub.stats.counters));
            for (k, v) in &sub.extra {
                m.insert(k.clone(), v.clone());
            }
            subs_json.push(Value::Object(m));
        }
        let mut cov = Map::new();
        cov.insert("evaluations".into(), json!(evaluations));
        cov.insert("distinct_nontrivial".into(), json!(nontrivial));
        cov.insert("rule".into(), json!(self.rule));
        cov.insert("samples".into(), json!(samples));
        cov.insert("exhaustive".into(), json!(all_exh));
        cov.insert("sub_spaces".into(), json!(subs_json));
        if self.level == "model_checking" {
            cov.insert("states".into(), json!(self.states));
            cov.insert("transitions".into(), json!(self.transitions));
            cov.insert("traces_validated_against_impl".into(), json!(self.traces));
        }
        cov.insert(
            "known_findings_matched".into(),
            json!(known_hits.iter().map(|(_, v, w)| json!({"sig": v.sig, "what": w, "witness": v.what})).collect::<Vec<_>>()),
        );
        cov.insert("violations_detail".into(), json!(vio_json));
        for (k, v) in &self.extra {
            cov.insert(k.clone(), v.clone());
        }
        let ev = json!({
            "property_id": self.id,
            "tier": self.tier,
            "seed": self.seed,
            "level": self.level,
            "coverage": Value::Object(cov),
            "assumptions": self.assumptions,
            "wall_s": self.elapsed(),
            "violations": new_violations.len(),
        });
        let edir = format!("{}/evidence", verif_root());
        let _ = std::fs::create_dir_all(&edir);
        let epath = format!("{}/{}.json", edir, self.id);
        if let Err(e) = std::fs::write(&epath, serde_json::to_string_pretty(&ev).unwrap()) {
            eprintln!("cannot write evidence {}: {}", epath, e);
            return 2;
        }
        eprintln!(
            "[{}] tier={} evaluations={} distinct_nontrivial={} violations={} known={} wall={:.1}s",
            self.id,
            self.tier,
            evaluations,
            nontrivial,
            new_violations.len(),
            seen_known.len(),
            self.elapsed()
        );
        if new_violations.is_empty() {
            0
        } else {
            1
        }
    }
}

impl Stats {
    pub fn to_json(&self) -> Value {
        json!({
            "evaluations": self.evaluations,
            "outcomes": self.outcomes,
            "nontrivial": self.nontrivial.iter().collect::<Vec<_>>(),
            "nontrivial_n": self.nontrivial_n,
            "counters": self.counters,
            "samples": self.samples,
            "violations": self.violations.iter().map(|v| json!({"sig": v.sig, "what": v.what, "size": v.size, "replay": v.replay})).collect::<Vec<_>>(),
        })
    }
    pub fn from_json(v: &Value) -> Stats {
        let mut s = Stats::new();
        s.evaluations = v["evaluations"].as_u64().unwrap_or(0);
        if let Some(o) = v["outcomes"].as_object() {
            for (k, x) in o {
                s.outcomes.insert(k.clone(), x.as_u64().unwrap_or(0));
            }
        }
        if let Some(o) = v["counters"].as_object() {
            for (k, x) in o {
                s.counters.insert(k.clone(), x.as_u64().unwrap_or(0));
            }
        }
        if let Some(a) = v["nontrivial"].as_array() {
            for x in a {
                if let Some(h) = x.as_u64() {
                    s.nontrivial.insert(h);
                }
            }
        }
        s.nontrivial_n = v["nontrivial_n"].as_u64().unwrap_or(0);
        if let Some(a) = v["samples"].as_array() {
            s.samples = a.clone();
        }
        if let Some(a) = v["violations"].as_array() {
            for x in a {
                s.violations.push(Violation {
                    sig: x["sig"].as_str().unwrap_or("").to_string(),
                    what: x["what"].as_str().unwrap_or("").to_string(),
                    size: x["size"].as_u64().unwrap_or(0) as usize,
                    replay: x["replay"].clone(),
                });
            }
        }
        s
    }
}
