//! C20 — all operator tables agree with each other and with the evaluator.
//! The space is finite and enumerated completely on every run.
use crate::oracle::{consensus, quote, Out};
use crate::report::{Report, Stats};
use crate::subject::*;
use crate::tree::*;
use serde_json::json;
use std::collections::{BTreeMap, BTreeSet};

use chialisp::classic::clvm::{keyword_from_atom, keyword_to_atom, OPERATORS_LATEST_VERSION};
use chialisp::compiler::dialect::KNOWN_DIALECTS;
use chialisp::compiler::prims::prims;
use chialisp::compiler::sexp::SExp;

const G1: &str = "97f1d3a73197d7942695638c4fa9ac0fc3688c4f9774b905a14e3a3f171bac586c55e83ff97a1aeffb3af00adb22c6bb";
const SECP_K1: [&str; 3] = [
    "02390b19842e100324163334b16947f66125b76d4fa4a11b9ccdde9b7398e64076",
    "85932e4d075615be881398cc765f9f78204033f0ef5f832ac37e732f5f0cbda2",
    "481477e62a1d02268127ae89cc58929e09ad5d30229721965ae35965d098a5f630205a7e69f4cb8084f16c7407ed7312994ffbf87ba5eb1aee16682dd324943e",
];
const SECP_R1: [&str; 3] = [
    "033e1a1b2ccbc35883c60fdfc3f4a02175096ade6271fe85517ca5772594bbd0dc",
    "85932e4d075615be881398cc765f9f78204033f0ef5f832ac37e732f5f0cbda2",
    "eae2f488080919bd0a7069c24cdd9c6ce2db423861b0c9d4236cdadbd0005f6d8f3709e6eb19249fd9c8bea664aba35218e67ea4b0f2239488dc3147f336e1e6",
];

fn hx(s: &str) -> T {
    T::A(hex::decode(s).unwrap())
}

/// Valid argument values per operator name (so the one-operator program returns a value).
pub fn op_args(name: &str) -> Option<Vec<T>> {
    let g1 = hx(G1);
    // a G2 point obtained from the consensus evaluator itself: (g2_map "m")
    let g2 = match consensus(&T::list(&[T::a(&[0x39]), quote(T::a(b"m"))]), &T::nil()) {
        Out::Val(v) => v,
        o => panic!("cannot obtain a G2 point: {:?}", o),
    };
    let h32 = T::A((1..=32u8).collect());
    Some(match name {
        "i" => vec![T::int(1), T::int(2), T::int(3)],
        "c" => vec![T::int(1), T::int(2)],
        "f" | "r" => vec![T::list(&[T::int(7), T::int(8)])],
        "l" => vec![T::list(&[T::int(7)])],
        "=" => vec![T::int(5), T::int(5)],
        ">s" => vec![T::a(b"b"), T::a(b"a")],
        "sha256" => vec![T::a(b"a"), T::a(b"bc")],
        "substr" => vec![T::a(b"hello"), T::int(1), T::int(3)],
        "strlen" => vec![T::a(b"hello")],
        "concat" => vec![T::a(b"ab"), T::a(b"cd")],
        "+" | "-" | "*" | "logand" | "logior" | "logxor" => vec![T::int(300), T::int(-7)],
        "/" | "divmod" | "%" => vec![T::int(300), T::int(7)],
        ">" => vec![T::int(300), T::int(-7)],
        "ash" | "lsh" => vec![T::int(300), T::int(3)],
        "lognot" | "not" => vec![T::int(300)],
        "any" | "all" => vec![T::int(0), T::int(1)],
        "point_add" | "g1_subtract" => vec![g1.clone(), g1.clone()],
        "pubkey_for_exp" => vec![T::int(2)],
        "coinid" => vec![h32.clone(), h32.clone(), T::int(1000)],
        "g1_multiply" => vec![g1.clone(), T::int(3)],
        "g1_negate" => vec![g1.clone()],
        "g2_add" | "g2_subtract" => vec![g2.clone(), g2.clone()],
        "g2_multiply" => vec![g2.clone(), T::int(3)],
        "g2_negate" => vec![g2.clone()],
        "g1_map" | "g2_map" => vec![T::a(b"message")],
        "bls_pairing_identity" => vec![],
        "bls_verify" => {
            // infinity signature with no (pk, msg) pairs verifies
            let mut inf = vec![0u8; 96];
            inf[0] = 0xc0;
            vec![T::A(inf)]
        }
        "modpow" => vec![T::int(2), T::int(10), T::int(7)],
        "keccak256" => vec![T::a(b"a")],
        "secp256k1_verify" => SECP_K1.iter().map(|s| hx(s)).collect(),
        "secp256r1_verify" => SECP_R1.iter().map(|s| hx(s)).collect(),
        _ => return None,
    })
}

/// Source-syntax literal for a value, unambiguous in both compilers: atoms as
/// hex constants (or () / small decimal), lists quoted.
fn lit(t: &T) -> String {
    fn raw(t: &T) -> String {
        match t {
            T::A(v) if v.is_empty() => "()".to_string(),
            T::A(v) => {
                if v.len() <= 2 {
                    let mut n: i64 = if v[0] & 0x80 != 0 { -1 } else { 0 };
                    for b in v {
                        n = (n << 8) | (*b as i64);
                    }
                    if int_bytes(n) == *v {
                        return n.to_string();
                    }
                }
                format!("0x{}", hex::encode(v))
            }
            T::P(a, b) => format!("({} . {})", raw(a), raw(b)),
        }
    }
    match t {
        T::P(_, _) => format!("(q . {})", raw(t)),
        _ => raw(t),
    }
}

fn fail(st: &mut Stats, sig: &str, what: String, replay: serde_json::Value) {
    st.violation(sig, what, 1, replay);
}

pub fn c20(thorough: bool, _replay: Option<String>) -> i32 {
    let mut rep = Report::new("C20", if thorough { "thorough" } else { "quick" }, "exploration");
    rep.rule = "the finite set of every (name, opcode) of the classic keyword tables v0..v2, every row of the modern primitive list and every opcode 0..255 plus the two 4-byte secp opcodes, enumerated completely; \
        non-trivial = distinct (table, name/opcode, clause) facts that were actually established (lookups that returned a binding, programs that returned a value)"
        .to_string();
    rep.assumptions = vec!["clvmr ChiaDialect(NO_UNKNOWN_OPS|ENABLE_KECCAK_OPS_OUTSIDE_GUARD) defines operator semantics".to_string()];

    // ---- table-level clauses
    let mut st = Stats::new();
    let mut tables: Vec<BTreeSet<(String, Vec<u8>)>> = vec![];
    for v in 0..=OPERATORS_LATEST_VERSION {
        let to = keyword_to_atom(v);
        let from = keyword_from_atom(v);
        let mut set = BTreeSet::new();
        for (n, a) in to.iter() {
            st.eval();
            set.insert((n.clone(), a.clone()));
            match from.get(a) {
                Some(n2) if n2 == n => {
                    st.nontrivial(&("inv-to-from", v, n));
                    st.outcome("inverse-ok");
                }
                other => fail(&mut st, &format!("tables/not-inverse/v{}/{}", v, n), format!("version {}: name {} -> {:02x?} but atom -> {:?}", v, n, a, other), json!({"version": v, "name": n})),
            }
        }
        for (a, n) in from.iter() {
            st.eval();
            match to.get(n) {
                Some(a2) if a2 == a => {
                    st.nontrivial(&("inv-from-to", v, n));
                    st.outcome("inverse-ok");
                }
                other => fail(&mut st, &format!("tables/not-inverse/v{}/{}", v, n), format!("version {}: atom {:02x?} -> {} but name -> {:?}", v, a, n, other), json!({"version": v, "name": n})),
            }
        }
        tables.push(set);
    }
    for v in 1..tables.len() {
        for e in tables[v - 1].iter() {
            st.eval();
            if tables[v].contains(e) {
                st.outcome("monotone-ok");
                st.nontrivial(&("mono", v, &e.0));
            } else {
                fail(&mut st, &format!("tables/version-drops/{}", e.0), format!("({}, {:02x?}) is in version {} but not in version {}", e.0, e.1, v - 1, v), json!({"name": e.0}));
            }
        }
    }
    // modern prims == classic latest
    let latest = tables.last().unwrap().clone();
    let mut modern: BTreeSet<(String, Vec<u8>)> = BTreeSet::new();
    let mut modern_names: BTreeMap<String, Vec<Vec<u8>>> = BTreeMap::new();
    for (n, v) in prims() {
        st.eval();
        let name = String::from_utf8_lossy(&n).to_string();
        let bytes = match &v {
            SExp::Integer(_, i) => int_bytes_big(i),
            SExp::Atom(_, b) | SExp::QuotedString(_, _, b) => b.clone(),
            _ => vec![],
        };
        modern_names.entry(name.clone()).or_default().push(bytes.clone());
        modern.insert((name, bytes));
    }
    for (n, ops) in modern_names.iter() {
        if ops.len() > 1 {
            fail(&mut st, &format!("prims/duplicate-name/{}", n), format!("modern primitive list binds {} to {:02x?}", n, ops), json!({"name": n}));
        }
    }
    for e in latest.symmetric_difference(&modern) {
        st.eval();
        let side = if latest.contains(e) { "classic-only" } else { "modern-only" };
        fail(&mut st, &format!("tables/classic-vs-modern/{}", e.0), format!("({}, {:02x?}) is {}", e.0, e.1, side), json!({"name": e.0}));
    }
    for e in latest.intersection(&modern) {
        st.outcome("classic==modern");
        st.nontrivial(&("cm", &e.0));
    }
    st.sample(json!({"latest_table_size": latest.len(), "modern_prims": modern.len(), "example": format!("{:?}", latest.iter().next())}));
    rep.add_sub("tables", "every entry of KEYWORD_{TO,FROM}_ATOM_{0,1,2} and prims()", (latest.len() * 6) as u64, true, false, st);

    // ---- assembler / disassembler per opcode
    let mut st = Stats::new();
    let mut opcodes: Vec<Vec<u8>> = (0..=255u8).map(|b| if b == 0 { vec![] } else { vec![b] }).collect();
    opcodes.push(vec![0x00]);
    opcodes.push(vec![0x13, 0xd6, 0x1f, 0x00]);
    opcodes.push(vec![0x1c, 0x3a, 0x8f, 0x00]);
    for (n, a) in latest.iter() {
        st.eval();
        match assemble(n) {
            Ok(T::A(b)) if b == *a => {
                st.outcome("assemble-name-ok");
                st.nontrivial(&("asm", n));
            }
            other => fail(&mut st, &format!("assemble/name/{}", n), format!("assemble({}) = {:?}, table says {:02x?}", n, other, a), json!({"name": n})),
        }
    }
    for op in &opcodes {
        for v in 0..=OPERATORS_LATEST_VERSION {
            st.eval();
            // (op) as a one-element list: the head position is where names are printed
            let prog = T::list(&[T::A(op.clone())]);
            let text = match disassemble(&prog, Some(v)) {
                Ok(t) => t,
                Err(p) => {
                    fail(&mut st, "disassemble/panic", format!("disassemble(({:02x?})) v{} panics: {}", op, v, p), json!({"op": hex::encode(op), "version": v}));
                    continue;
                }
            };
            let inner = text.trim().trim_start_matches('(').trim_end_matches(')').to_string();
            let expect = tables[v].iter().find(|e| e.1 == *op).map(|e| e.0.clone());
            match expect {
                Some(name) => {
                    if inner == name {
                        st.outcome("disassemble-prints-name");
                        st.nontrivial(&("dis", v, op));
                    } else if !latest.iter().any(|e| e.0 == inner) {
                        // printed as a literal, not as some *other* operator's name: the name is not
                        // given a different opcode (the printer only names atoms of <= 2 bytes)
                        st.outcome("disassemble-prints-literal-for-named-opcode");
                    } else {
                        fail(&mut st, &format!("disassemble/name-missing/v{}/{}", v, name), format!("opcode {:02x?} under version {} prints {:?}, table has {}", op, v, text, name), json!({"op": hex::encode(op), "version": v}));
                    }
                }
                None => {
                    // must not print any known keyword name of a *later* table for this opcode
                    if latest.iter().any(|e| e.0 == inner) && !op.is_empty() {
                        fail(&mut st, &format!("disassemble/name-leaks/v{}/{}", v, inner), format!("opcode {:02x?} under version {} prints name {:?} which version {} does not have", op, v, inner, v), json!({"op": hex::encode(op), "version": v}));
                    } else {
                        st.outcome("disassemble-prints-number");
                    }
                }
            }
            // and the text must assemble back to the same value
            match assemble(&text) {
                Ok(t) if t == prog => {}
                other => fail(&mut st, "disassemble/not-reassembling", format!("disassemble(({:02x?})) v{} = {:?} reassembles to {:?}", op, v, text, other), json!({"op": hex::encode(op), "version": v})),
            }
        }
    }
    st.sample(json!({"opcode": "0x3d", "v0": disassemble(&T::list(&[T::a(&[0x3d])]), Some(0)).unwrap_or_default(), "v2": disassemble(&T::list(&[T::a(&[0x3d])]), Some(2)).unwrap_or_default()}));
    rep.add_sub("assemble-disassemble", "every name of the latest table; every opcode nil,1..255,0x00 and both secp opcodes x versions 0..2", (opcodes.len() * 3 + latest.len()) as u64, true, false, st);

    // ---- one-operator programs
    let mut st = Stats::new();
    let cl24 = KNOWN_DIALECTS.get("*standard-cl-24*").unwrap().accepted.clone();
    let cl21 = KNOWN_DIALECTS.get("*standard-cl-21*").unwrap().accepted.clone();
    let mut space = 0u64;
    for (name, opcode) in latest.iter() {
        if name == "q" || name == "a" || name == "x" || name == "softfork" {
            // q/a are evaluator syntax, x never returns, softfork is excluded by C06's text as well: table clauses only
            st.outcome("syntax-or-nonreturning(table clauses only)");
            continue;
        }
        let args = match op_args(name) {
            Some(a) => a,
            None => {
                fail(&mut st, &format!("harness/no-argument-table/{}", name), format!("operator {} is in the tables but the harness has no argument vector for it (new operator?)", name), json!({"name": name}));
                continue;
            }
        };
        let introduced = (0..tables.len()).find(|v| tables[*v].contains(&(name.clone(), opcode.clone()))).unwrap();
        let mut hand = vec![T::A(opcode.clone())];
        hand.extend(args.iter().map(|a| quote(a.clone())));
        let hand = T::list(&hand);
        let want = consensus(&hand, &T::nil());
        space += 1;
        st.eval();
        let v = match &want {
            Out::Val(v) => v.clone(),
            o => {
                fail(&mut st, &format!("run/consensus-does-not-implement/{}", name), format!("hand-assembled ({:02x?} args…) for {}: consensus evaluator says {}", opcode, name, o.short()), json!({"name": name}));
                continue;
            }
        };
        st.sample(json!({"name": name, "opcode": hex::encode(opcode), "program": hand.short(), "value": v.short()}));
        let mut ok = true;
        let mut check = |st: &mut Stats, clause: &str, got: Out| {
            st.eval();
            if got == Out::Val(v.clone()) {
                st.outcome(&format!("{}-ok", clause));
                st.nontrivial(&(clause, name));
            } else {
                ok = false;
                fail(st, &format!("run/{}/{}", clause, name), format!("operator {} ({:02x?}): {} gives {}, consensus on the hand-assembled form gives {}", name, opcode, clause, got.short(), v.short()), json!({"name": name, "clause": clause}));
            }
        };
        // the tools' own runner implements it at the version that introduces it (and later)
        for ver in introduced..tables.len() {
            check(&mut st, &format!("tool-runner-v{}", ver), tool_runner(&hand, &T::nil(), ver));
        }
        // the stepping evaluator, numeric head and symbolic head
        for sp in [Spell::Convert, Spell::Int, Spell::Hex] {
            if sp == Spell::Hex && modern_names.contains_key(&String::from_utf8_lossy(opcode).to_string()) {
                // a byte-string head whose bytes spell an operator *name* is read as that name: the
                // documented convenience of the stepping evaluator, outside the comparison
                st.outcome("stepping-Hex-head-spells-a-name(by design, skipped)");
                continue;
            }
            check(&mut st, &format!("stepping-{:?}", sp), stepping_run(&hand, &T::nil(), sp, Some(100000)));
        }
        // symbolic head (the operator *name* as an atom, as read from text), arguments as converted
        {
            let hs = to_sexp(&hand, Spell::Convert);
            if let SExp::Cons(l, _, rest) = &*hs {
                let sym = std::rc::Rc::new(SExp::Cons(l.clone(), std::rc::Rc::new(SExp::Atom(l.clone(), name.as_bytes().to_vec())), rest.clone()));
                check(&mut st, "stepping-symbolic-head", stepping_run_sexp(sym, to_sexp(&T::nil(), Spell::Convert), Some(100000)));
            }
        }
        // modern compiler, constant arguments and parameter arguments, two dialects
        let argnames: Vec<String> = (0..args.len()).map(|i| format!("P{}", i)).collect();
        let env = T::list(&args);
        for (dn, d, sig) in [("cl24", &cl24, "*standard-cl-24*"), ("cl21", &cl21, "*standard-cl-21*")] {
            let src_const = format!("(mod () (include {}) ({} {}))", sig, name, args.iter().map(lit).collect::<Vec<_>>().join(" "));
            let src_param = format!("(mod ({}) (include {}) ({} {}))", argnames.join(" "), sig, name, argnames.join(" "));
            for (kind, src, e) in [("const", &src_const, T::nil()), ("param", &src_param, env.clone())] {
                for opt in [false, true] {
                    let got = match modern_compile(src, d.clone(), &ModernOpts { optimize: opt, ..Default::default() }) {
                        Ok(c) => {
                            if kind == "param" && contains_atom(&c.code, opcode) {
                                st.count("compiled-code-contains-the-opcode", 1);
                            }
                            consensus(&c.code, &e)
                        }
                        Err(e) => Out::Err(format!("compile error: {}", e.msg())),
                    };
                    check(&mut st, &format!("modern-{}-{}-opt{}", dn, kind, opt as u8), got);
                }
            }
        }
        // the library entry point (compile_clvm_text: always optimising, classic post-optimiser on top) for
        // every sigil, with the constant operands spelled as decimal literals, as hex literals, and produced by
        // a constant sub-expression - the three forms reach different constant folders
        for sig in crate::gen::SIGILS {
            let hexlit = |t: &T| -> String {
                match t {
                    T::A(v) if !v.is_empty() => format!("0x{}", hex::encode(v)),
                    _ => lit(t),
                }
            };
            let sublit = |t: &T| -> String {
                match t {
                    T::A(v) if !v.is_empty() => format!("(concat 0x{})", hex::encode(v)),
                    _ => lit(t),
                }
            };
            let dn = crate::progmc::short_sigil(sig);
            let forms: Vec<(&str, String, T)> = vec![
                ("const", format!("(mod () (include {}) ({} {}))", sig, name, args.iter().map(lit).collect::<Vec<_>>().join(" ")), T::nil()),
                ("hexconst", format!("(mod () (include {}) ({} {}))", sig, name, args.iter().map(hexlit).collect::<Vec<_>>().join(" ")), T::nil()),
                ("subexprconst", format!("(mod () (include {}) ({} {}))", sig, name, args.iter().map(sublit).collect::<Vec<_>>().join(" ")), T::nil()),
                ("param", format!("(mod ({}) (include {}) ({} {}))", argnames.join(" "), sig, name, argnames.join(" ")), env.clone()),
            ];
            for (kind, src, e) in forms {
                let got = match library_compile(&src, &[], true) {
                    Ok(c) => consensus(&c.code, &e),
                    Err(e) => Out::Err(format!("compile error: {}", e.msg())),
                };
                // known: strict-cl-21 under optimisation (C01's finding F14) - the operator tables are not the subject there
                if sig == "*strict-cl-21*" && got != Out::Val(v.clone()) {
                    st.outcome("library-strict21(C01 finding F14, no table claim)");
                    continue;
                }
                check(&mut st, &format!("library-{}-{}", dn, kind), got);
            }
        }
        // classic compiler (library entry point, no sigil)
        let src_const = format!("(mod () ({} {}))", name, args.iter().map(lit).collect::<Vec<_>>().join(" "));
        let src_param = format!("(mod ({}) ({} {}))", argnames.join(" "), name, argnames.join(" "));
        for (kind, src, e) in [("const", &src_const, T::nil()), ("param", &src_param, env.clone())] {
            let got = match library_compile(src, &[], true) {
                Ok(c) => consensus(&c.code, &e),
                Err(e) => Out::Err(format!("compile error: {}", e.msg())),
            };
            check(&mut st, &format!("classic-{}", kind), got);
        }
        let _ = ok;
    }
    rep.add_sub("one-operator-programs", "for every operator name of the latest table except q/a/x/softfork: hand-assembled (opcode (q . arg)…) under consensus vs tool runner at every version >= introduction, stepping evaluator in 3 atom spellings, modern compiler cl21/cl24 x constant/parameter arguments x optimize off/on, classic compiler constant/parameter", space, true, false, st);

    // ---- every opcode: stepping evaluator vs consensus on (op) and (op 1) etc. is C06-(ii); here only "implemented" for named ones.
    rep.finish()
}

fn contains_atom(t: &T, a: &[u8]) -> bool {
    match t {
        T::A(v) => v == a,
        T::P(x, y) => contains_atom(x, a) || contains_atom(y, a),
    }
}
