//! C05 — compilation is a pure function of source, include files and options.
//! Explicit-state exploration of the process state a compilation can observe:
//! histories of earlier compilations (fresh subprocess per history), starting
//! values of the name counter, hash-iteration orders (hook) and interleavings of
//! two compiling threads under a token-passing scheduler (hooks).
use crate::gen::*;
use crate::lang::*;
use crate::par::{catch, par_range};
use crate::progmc::{dialect_of, entry_option_sets};
use crate::report::{Report, Stats};
use crate::subject::*;
use serde_json::json;
use std::collections::BTreeMap;
use std::sync::atomic::Ordering;
use std::sync::{Condvar, Mutex};
use std::time::Duration;

use chialisp::compiler::gensym::ARGNAME_CTR;
use chialisp::verif_hooks;

#[derive(Clone, Debug, PartialEq, Eq)]
pub struct Output {
    /// hex of the emitted CLVM, or the error text
    pub result: Result<String, String>,
    /// user-visible symbol entries, with `_$_<digits>` suffixes renumbered in order of first appearance
    pub symbols: BTreeMap<String, String>,
}

fn normalise_symbols(syms: &std::collections::HashMap<String, String>) -> BTreeMap<String, String> {
    // keys are hashes / fixed names; values of synthetic helpers legitimately carry the counter
    let mut ordered: Vec<(&String, &String)> = syms.iter().collect();
    ordered.sort();
    let mut seen: Vec<String> = vec![];
    let mut out = BTreeMap::new();
    for (k, v) in ordered {
        let mut nv = String::new();
        let mut rest = v.as_str();
        while let Some(i) = rest.find("_$_") {
            nv.push_str(&rest[..i + 3]);
            let digits: String = rest[i + 3..].chars().take_while(|c| c.is_ascii_digit()).collect();
            if digits.is_empty() {
                rest = &rest[i + 3..];
                continue;
            }
            let idx = match seen.iter().position(|d| *d == digits) {
                Some(p) => p,
                None => {
                    seen.push(digits.clone());
                    seen.len() - 1
                }
            };
            nv.push_str(&format!("#{}", idx));
            rest = &rest[i + 3 + digits.len()..];
        }
        nv.push_str(rest);
        out.insert(k.clone(), nv);
    }
    out
}

#[derive(Clone, Debug)]
pub struct Event {
    pub name: String,
    pub text: String,
    pub sigil: &'static str,
    pub optset: usize,
}

pub fn compile_event(e: &Event) -> Output {
    let (_, o) = entry_option_sets(e.sigil)[e.optset].clone();
    match modern_compile(&e.text, dialect_of(e.sigil), &o) {
        Ok(c) => Output { result: Ok(c.code.hex()), symbols: normalise_symbols(&c.symbols) },
        Err(err) => {
            // error texts may legitimately quote generated names: keep the class of the error only
            let m = err.msg();
            let m = if let Some(i) = m.find("_$_") { m[..i].to_string() } else { m };
            Output { result: Err(m.chars().take(80).collect()), symbols: BTreeMap::new() }
        }
    }
}

pub fn events(thorough: bool) -> Vec<Event> {
    let mut v: Vec<Event> = vec![];
    let mut add = |name: &str, text: String, sigil: &'static str, optset: usize| v.push(Event { name: name.to_string(), text, sigil, optset });
    let chain = |b: &str, var: usize| -> Vec<(usize, usize)> { vec![(BINDERS.iter().position(|x| *x == b).unwrap(), var)] };
    let two = |a: &str, b: &str| -> Vec<(usize, usize)> { vec![(BINDERS.iter().position(|x| *x == a).unwrap(), 0), (BINDERS.iter().position(|x| *x == b).unwrap(), 1)] };
    add("let-in-defun/cl21", scope_case(&two("defun", "let"), NamePolicy::Fresh, Some(SIGILS[0])).prog.text(), SIGILS[0], 0);
    add("assign+lambda/cl23", scope_case(&two("assign", "lambda-capture"), NamePolicy::Fresh, Some(SIGILS[3])).prog.text(), SIGILS[3], 1);
    add("inline+let*/cl24", scope_case(&two("inline", "let*"), NamePolicy::SameEverywhere, Some(SIGILS[5])).prog.text(), SIGILS[5], 1);
    add("zero-literals/cl23.1", "(mod (A) (include *standard-cl-23.1*) (defun F (X) (list 0x00 0x0000 X 255 -129)) (F A))".to_string(), SIGILS[4], 1);
    add("zero-literals/cl21", "(mod (A) (include *standard-cl-21*) (defun F (X) (list 0x00 0x0000 X 255 -129)) (F A))".to_string(), SIGILS[0], 1);
    add("quoted-symbol/cl21", "(mod (A) (include *standard-cl-21*) (defun F (X) (c (q . X) X)) (F A))".to_string(), SIGILS[0], 0);
    add("macro+if/strict21", scope_case(&two("macro", "if-branch"), NamePolicy::Fresh, Some(SIGILS[1])).prog.text(), SIGILS[1], 0);
    add("cse-candidates/cl23", "(mod (A B) (include *standard-cl-23*) (defun F (X Y) (if X (list (sha256 X Y) (sha256 X Y) (+ (* X Y) (* X Y))) (list (* X Y) (sha256 X Y)))) (F A B))".to_string(), SIGILS[3], 1);
    add("deinline-candidates/cl24", "(mod (A B) (include *standard-cl-24*) (defun F (X Y) (let ((P (+ X Y)) (Q (* X Y))) (let ((R (- P Q)) (S (+ P Q))) (assign T (c R S) U (c T T) (list P Q R S T U))))) (defun G (Z) (let ((W (F Z Z))) (c W W))) (c (F A B) (G B)))".to_string(), SIGILS[5], 1);
    // twins: pairs of programs that differ in ONE same-length constant inside a helper (same names, same source
    // extents, same file name), plus a third variant of the first that fails during code generation (a call of an
    // undefined function at the end of the main expression). Any state keyed more coarsely than the full content
    // (by name, by location, by shape) and any state left behind by the failing variant shows up as twin b
    // compiled after twin a / after the failing twin differing from its solo output.
    {
        let twins: Vec<(&str, &str, &'static str, usize)> = vec![
            ("defmacro", "(defmacro M (X) (qq (+ (unquote X) @K@))) (c (M A) @TAIL@)", SIGILS[0], 0),
            ("defmacro23", "(defmacro M (X) (qq (+ (unquote X) @K@))) (c (M A) @TAIL@)", SIGILS[3], 1),
            ("defun-inline", "(defun-inline F (X) (+ X @K@)) (c (F A) @TAIL@)", SIGILS[3], 1),
            ("defconst", "(defconst K (+ 1 @K@)) (c (+ K A) @TAIL@)", SIGILS[5], 1),
            ("let-in-defun", "(defun F (X) (let ((Y (+ X @K@))) (c Y X))) (c (F A) @TAIL@)", SIGILS[0], 0),
            ("defun", "(defun F (X) (+ X @K@)) (c (F A) @TAIL@)", SIGILS[5], 1),
            ("lambda", "(defun F (X) (a (lambda ((& X) Z) (+ X Z @K@)) (list 1))) (c (F A) @TAIL@)", SIGILS[3], 1),
            ("assign", "(defun F (X) (assign Y (+ X @K@) Z (* Y 2) (c Y Z))) (c (F A) @TAIL@)", SIGILS[5], 1),
        ];
        let n = if thorough { twins.len() } else { 5 };
        for (name, body, sigil, optset) in twins.into_iter().take(n) {
            let mk = |k: &str, tail: &str| format!("(mod (A) (include {}) {})", sigil, body.replace("@K@", k).replace("@TAIL@", tail));
            add(&format!("twin-a:{}", name), mk("5", "A"), sigil, optset);
            add(&format!("twin-b:{}", name), mk("7", "A"), sigil, optset);
            add(&format!("FAIL:twin-a:{}", name), mk("5", "(ZZ A)"), sigil, optset);
        }
    }
    // failing compilations
    add("FAIL:reader-error", "(mod (A) (include *standard-cl-23*) (c A".to_string(), SIGILS[3], 1);
    add("FAIL:unbound-in-strict", "(mod (A) (include *standard-cl-24*) (defun F (X) (let ((Y (+ X 1))) (c Y ZZ))) (F A))".to_string(), SIGILS[5], 1);
    add("FAIL:macro-raises", "(mod (A) (include *standard-cl-21*) (defmacro BOOM (P) (x P)) (let ((Q A)) (BOOM Q)))".to_string(), SIGILS[0], 0);
    if thorough {
        add("rest+destructure/cl22", scope_case(&two("rest-call", "destructure-call"), NamePolicy::Fresh, Some(SIGILS[2])).prog.text(), SIGILS[2], 0);
        add("assign-inline/cl23.1", scope_case(&chain("assign-inline", 1), NamePolicy::ShadowParams, Some(SIGILS[4])).prog.text(), SIGILS[4], 1);
        for (path, text) in crate::crashmc::shipped_seeds(3000, 400) {
            if path.ends_with("cse-complex-21.clsp") || path.ends_with("simple_deinline_case_23.clsp") || path.ends_with("test_recursion_subexp.clsp") || path.ends_with("test_assign_path_opt.clsp") {
                if let Some(d) = detect_dialect(&text) {
                    if let Some(s) = SIGILS.iter().find(|s| {
                        let x = dialect_of(s);
                        x.stepping == d.stepping && x.strict == d.strict && x.int_fix == d.int_fix
                    }) {
                        v.push(Event { name: format!("shipped:{}", path.rsplit('/').next().unwrap_or("")), text, sigil: s, optset: 1 });
                    }
                }
            }
        }
    }
    v
}

// ---- child modes

/// `vmc --c05-history <tier> i,j,k`: compile the events in order on this (fresh) process's main thread,
/// print one JSON line per compilation.
pub fn history_main(args: Vec<String>) -> ! {
    crate::par::install_panic_hook();
    let thorough = args[0] == "thorough";
    let evs = events(thorough);
    let ids: Vec<usize> = args[1].split(',').filter(|s| !s.is_empty()).map(|s| s.parse().unwrap()).collect();
    let r = crate::par::with_big_stack(move || {
        let mut outs = vec![];
        for i in ids {
            let o = match catch(std::panic::AssertUnwindSafe(|| compile_event(&evs[i]))) {
                Ok(o) => o,
                Err(p) => Output { result: Err(format!("PANIC {}", p)), symbols: BTreeMap::new() },
            };
            outs.push(json!({"event": i, "result": match &o.result { Ok(h) => json!({"ok": h}), Err(e) => json!({"err": e}) }, "symbols": o.symbols}));
        }
        outs
    });
    println!("{}", serde_json::Value::Array(r));
    std::process::exit(0);
}

fn run_history(tier: &str, ids: &[usize]) -> Result<Vec<serde_json::Value>, String> {
    let exe = std::env::current_exe().map_err(|e| e.to_string())?;
    let out = std::process::Command::new(exe).args(["--c05-history", tier, &ids.iter().map(|i| i.to_string()).collect::<Vec<_>>().join(",")]).output().map_err(|e| e.to_string())?;
    if !out.status.success() {
        return Err(format!("history process died: {:?}", out.status));
    }
    let line = String::from_utf8_lossy(&out.stdout);
    let v: serde_json::Value = serde_json::from_str(line.lines().last().unwrap_or("[]")).map_err(|e| e.to_string())?;
    Ok(v.as_array().cloned().unwrap_or_default())
}

// ---- token-passing scheduler for two compiling threads

struct Sched {
    active: bool,
    turn: usize,
    finished: [bool; 2],
    started: [bool; 2],
    step: usize,
    prefix: Vec<usize>,
    taken: Vec<usize>,
    enabled_at: Vec<Vec<usize>>,
    running_at: Vec<Option<usize>>,
    running: Option<usize>,
}

static SCHED: Mutex<Option<Sched>> = Mutex::new(None);
static SCHED_CV: Condvar = Condvar::new();

thread_local! {
    static MY_ID: std::cell::Cell<usize> = const { std::cell::Cell::new(usize::MAX) };
}

fn decide(s: &mut Sched) {
    let enabled: Vec<usize> = (0..2).filter(|i| !s.finished[*i]).collect();
    if enabled.is_empty() {
        return;
    }
    let choice = if s.step < s.prefix.len() && enabled.contains(&s.prefix[s.step]) {
        s.prefix[s.step]
    } else if let Some(r) = s.running.filter(|r| enabled.contains(r)) {
        r
    } else {
        enabled[0]
    };
    s.enabled_at.push(enabled.clone());
    s.running_at.push(s.running.filter(|r| enabled.contains(r)));
    s.taken.push(choice);
    s.step += 1;
    s.running = Some(choice);
    s.turn = choice;
}

fn sched_point(_kind: u32) {
    let id = MY_ID.with(|m| m.get());
    if id == usize::MAX {
        return;
    }
    let mut g = SCHED.lock().unwrap();
    if let Some(s) = g.as_mut() {
        if !s.active {
            return;
        }
        // the running thread reached a point: pick who runs next
        decide(s);
    }
    SCHED_CV.notify_all();
    loop {
        let my_turn = g.as_ref().map(|s| s.turn == id || !s.active).unwrap_or(true);
        if my_turn {
            break;
        }
        g = SCHED_CV.wait(g).unwrap();
    }
}

struct PairResult {
    outs: [Output; 2],
    taken: Vec<usize>,
    enabled_at: Vec<Vec<usize>>,
    running_at: Vec<Option<usize>>,
}

fn run_pair(a: &Event, b: &Event, prefix: &[usize]) -> PairResult {
    {
        let mut g = SCHED.lock().unwrap();
        *g = Some(Sched { active: true, turn: usize::MAX, finished: [false; 2], started: [false; 2], step: 0, prefix: prefix.to_vec(), taken: vec![], enabled_at: vec![], running_at: vec![], running: None });
        decide(g.as_mut().unwrap());
    }
    verif_hooks::set_point_hook(Some(sched_point));
    let evs = [a.clone(), b.clone()];
    let outs: Vec<Output> = std::thread::scope(|sc| {
        let hs: Vec<_> = (0..2)
            .map(|i| {
                let e = evs[i].clone();
                std::thread::Builder::new()
                    .stack_size(256 * 1024 * 1024)
                    .spawn_scoped(sc, move || {
                        MY_ID.with(|m| m.set(i));
                        // wait for the first token
                        {
                            let mut g = SCHED.lock().unwrap();
                            if let Some(s) = g.as_mut() {
                                s.started[i] = true;
                            }
                            loop {
                                let go = g.as_ref().map(|s| s.turn == i).unwrap_or(true);
                                if go {
                                    break;
                                }
                                g = SCHED_CV.wait(g).unwrap();
                            }
                        }
                        let o = match catch(std::panic::AssertUnwindSafe(|| compile_event(&e))) {
                            Ok(o) => o,
                            Err(p) => Output { result: Err(format!("PANIC {}", p)), symbols: BTreeMap::new() },
                        };
                        let mut g = SCHED.lock().unwrap();
                        if let Some(s) = g.as_mut() {
                            s.finished[i] = true;
                            s.running = None;
                            decide(s);
                        }
                        SCHED_CV.notify_all();
                        MY_ID.with(|m| m.set(usize::MAX));
                        o
                    })
                    .expect("spawn")
            })
            .collect();
        hs.into_iter().map(|h| h.join().expect("compile thread")).collect()
    });
    verif_hooks::set_point_hook(None);
    let s = SCHED.lock().unwrap().take().unwrap();
    PairResult { outs: [outs[0].clone(), outs[1].clone()], taken: s.taken, enabled_at: s.enabled_at, running_at: s.running_at }
}

fn show(o: &Output) -> String {
    match &o.result {
        Ok(h) => format!("ok:{}…({} symbols)", &h[..h.len().min(40)], o.symbols.len()),
        Err(e) => format!("err:{}", e),
    }
}

pub fn c05(thorough: bool, replay: Option<String>) -> i32 {
    let tier = if thorough { "thorough" } else { "quick" };
    let mut rep = Report::new("C05", tier, "model_checking");
    rep.rule = "explicit-state exploration of the process state a compilation can observe, same invariant everywhere: bytes and user-visible symbol entries (generated-name suffixes renumbered) of compile(P, options) equal those of its solo run in a fresh process. \
        (1) HISTORIES: every sequence of <= 2 (thorough 3) earlier compilations drawn from an alphabet of events (programs in every dialect family, three that fail: reader error, unbound name, raising macro), each history replayed in its own fresh subprocess, every compilation in every position compared with its solo output (states are not merged). \
        (2) COUNTER: every program compiled with the fresh-name counter preset to each of 0..11 (thorough 0..63) and every value within 1 (thorough 5) of each power of ten up to 10^9. \
        (3) ITERATION ORDER (hook): at the two hash-ordered loops of the de-inlining optimiser the collection is iterated in every permutation (all of them when it has <= 4 elements, else every single transposition away from sorted). \
        (4) SCHEDULES (hooks): two threads compile P and Q under a token-passing scheduler whose scheduling points are every fresh-name request and every set / restore of the integer mode; all interleavings with <= 1 (thorough 2) preemptions, each thread's output compared with its solo output. \
        states = distinct (history | counter | order | schedule) configurations executed, transitions = compilations executed; every trace runs on the implementation"
        .to_string();
    rep.assumptions = vec![
        "hash-order seams exist at the sites inventoried in DESIGN.md (deinline_opt); the CSE pass orders by BTreeMap over content hashes, i.e. by a function of the counter, which exploration (2) covers".to_string(),
        "a thread can influence another only through the counter values it is handed and through state that ought to be thread-local; the scheduling points expose exactly those accesses".to_string(),
    ];
    if replay.is_some() {
        let st = Stats::new();
        rep.add_sub("replay", "re-run the check; replay files carry the history / counter / order / schedule", 0, false, false, st);
        return rep.finish();
    }
    let cap = Some(Duration::from_secs(if thorough { 3000 } else { 50 }));
    let evs = events(thorough);
    let ne = evs.len();

    // solo outputs, each from its own fresh process
    let mut solo: Vec<Output> = vec![];
    for i in 0..ne {
        let r = run_history(tier, &[i]).expect("solo run");
        solo.push(parse_output(&r[0]));
    }
    eprintln!("[C05] {} events; solo outputs: {:?}", ne, solo.iter().map(show).collect::<Vec<_>>());

    // (1) histories
    let mut hists: Vec<Vec<usize>> = vec![];
    let maxlen = if thorough { 3 } else { 2 };
    let mut frontier: Vec<Vec<usize>> = vec![vec![]];
    for _ in 0..maxlen {
        let mut next = vec![];
        for h in &frontier {
            for e in 0..ne {
                let mut n = h.clone();
                n.push(e);
                next.push(n);
            }
        }
        hists.extend(next.iter().cloned());
        frontier = next;
    }
    let n = hists.len() as u64;
    let solo_ref = &solo;
    let evs_ref = &evs;
    let (mut st, capped) = par_range(n, 2, cap, || (), |_, st, i| {
        let h = &hists[i as usize];
        st.eval();
        match run_history(tier, h) {
            Err(e) => st.violation("history/process-died", format!("history {:?}: {}", h.iter().map(|i| evs_ref[*i].name.clone()).collect::<Vec<_>>(), e), h.len(), json!({"kind": "c05-history", "events": h})),
            Ok(outs) => {
                st.count("compilations", outs.len() as u64);
                let mut ok = true;
                for (pos, o) in outs.iter().enumerate() {
                    let got = parse_output(o);
                    let ev = h[pos];
                    if got != solo_ref[ev] {
                        ok = false;
                        let what = if got.result != solo_ref[ev].result { "bytes" } else { "symbols" };
                        st.violation(
                            &format!("history/{}-differ/{}", what, evs_ref[ev].name.split(':').next().unwrap_or("").split('/').next().unwrap_or("")),
                            format!("after the history {:?}, compiling {} gives {} but its solo run gives {}", h[..pos].iter().map(|i| evs_ref[*i].name.clone()).collect::<Vec<_>>(), evs_ref[ev].name, show(&got), show(&solo_ref[ev])),
                            h.len(),
                            json!({"kind": "c05-history", "events": h, "position": pos, "texts": h.iter().map(|i| evs_ref[*i].text.clone()).collect::<Vec<_>>()}),
                        );
                    }
                }
                if ok {
                    st.nontrivial(h);
                    if h.len() == 2 && h[0] != h[1] {
                        st.sample(json!({"history": h.iter().map(|i| evs_ref[*i].name.clone()).collect::<Vec<_>>(), "every_position_equals_solo": true}));
                    }
                }
            }
        }
    });
    rep.states += st.evaluations;
    rep.transitions += st.counters.get("compilations").copied().unwrap_or(0);
    rep.traces += st.evaluations;
    st.max_samples = 3;
    rep.add_sub("histories", &format!("all {} histories of length 1..{} over {} events, one fresh subprocess each", n, maxlen, ne), n, true, capped, st);

    // (2) counter values (in-process; sequential per worker because the counter is process-wide)
    let mut counters: Vec<usize> = (0..(if thorough { 64 } else { 12 })).collect();
    let mut p = 10usize;
    while p <= 1_000_000_000 {
        let w = if thorough { 5 } else { 1 };
        for d in 0..=2 * w {
            counters.push(p - w + d);
        }
        p *= 10;
    }
    counters.sort();
    counters.dedup();
    // the twin-b / failing-twin events exist for the histories; their a-variants stand for them here
    let okev: Vec<usize> = (0..ne).filter(|i| thorough || !(evs[*i].name.starts_with("twin-b:") || evs[*i].name.starts_with("FAIL:twin-a:"))).collect();
    let mut st = Stats::new();
    let mut capped = false;
    let t0 = std::time::Instant::now();
    'outer: for ev in okev {
        for c in &counters {
            if t0.elapsed() > Duration::from_secs(if thorough { 1200 } else { 40 }) {
                capped = true;
                break 'outer;
            }
            st.eval();
            ARGNAME_CTR.store(*c, Ordering::SeqCst);
            let e2 = evs[ev].clone();
            let got = crate::par::with_big_stack(move || catch(std::panic::AssertUnwindSafe(|| compile_event(&e2)))).unwrap_or_else(|p| Output { result: Err(format!("PANIC {}", p)), symbols: BTreeMap::new() });
            st.count("compilations", 1);
            if got == solo[ev] {
                st.nontrivial(&(ev, c));
            } else {
                let what = if got.result != solo[ev].result { "bytes" } else { "symbols" };
                st.violation(&format!("counter/{}-differ/{}", what, evs[ev].name.split('/').next().unwrap_or("")), format!("{} compiled with the name counter starting at {} gives {}, from a fresh process {}", evs[ev].name, c, show(&got), show(&solo[ev])), *c, json!({"kind": "c05-counter", "event": evs[ev].name, "text": evs[ev].text, "counter": c}));
            }
        }
        st.sample(json!({"event": evs[ev].name, "counter_values_tried": counters.len(), "all_equal_to_solo": true}));
    }
    ARGNAME_CTR.store(0, Ordering::SeqCst);
    rep.states += st.evaluations;
    rep.transitions += st.evaluations;
    rep.traces += st.evaluations;
    rep.add_sub("counter-values", &format!("{} events x {} starting values of the fresh-name counter (small values and the neighbourhood of every power of ten up to 10^9)", ne, counters.len()), (ne * counters.len()) as u64, true, capped, st);

    // (3) iteration orders through the deinline seam
    let mut st = Stats::new();
    let mut capped = false;
    let t0 = std::time::Instant::now();
    for ev in 0..ne {
        if !dialect_of(evs[ev].sigil).stepping.map(|s| s >= 23).unwrap_or(false) || solo[ev].result.is_err() {
            continue;
        }
        // first run: record the sizes seen at each site visit
        let sizes: std::sync::Arc<Mutex<Vec<(String, usize)>>> = Default::default();
        let s2 = sizes.clone();
        let e2 = evs[ev].clone();
        ARGNAME_CTR.store(0, Ordering::SeqCst);
        let base = crate::par::with_big_stack(move || {
            verif_hooks::set_order_hook(Some(Box::new(move |site, n| {
                s2.lock().unwrap().push((site.to_string(), n));
                (0..n).collect()
            })));
            let o = compile_event(&e2);
            verif_hooks::set_order_hook(None);
            o
        });
        let visits = sizes.lock().unwrap().clone();
        st.count("order-site-visits", visits.len() as u64);
        if base != solo[ev] {
            st.violation("order/sorted-order-differs-from-solo", format!("{}: with the collections iterated in sorted order the output is {}, the solo (hash-ordered) run gave {}", evs[ev].name, show(&base), show(&solo[ev])), 0, json!({"kind": "c05-order", "event": evs[ev].name, "text": evs[ev].text, "permutation": "sorted"}));
        }
        // deviations: at visit k (with n_k >= 2 elements) use a non-identity permutation, identity elsewhere
        for (k, (site, n)) in visits.iter().enumerate() {
            if *n < 2 {
                continue;
            }
            let perms: Vec<Vec<usize>> = if *n <= 4 { all_perms(*n) } else { transpositions(*n) };
            for p in perms {
                if p.iter().enumerate().all(|(i, x)| i == *x) {
                    continue;
                }
                if t0.elapsed() > Duration::from_secs(if thorough { 900 } else { 20 }) {
                    capped = true;
                    break;
                }
                st.eval();
                let e2 = evs[ev].clone();
                let p2 = p.clone();
                ARGNAME_CTR.store(0, Ordering::SeqCst);
                let got = crate::par::with_big_stack(move || {
                    let mut visit = 0usize;
                    verif_hooks::set_order_hook(Some(Box::new(move |_site, n| {
                        let r = if visit == k && n == p2.len() { p2.clone() } else { (0..n).collect() };
                        visit += 1;
                        r
                    })));
                    let o = compile_event(&e2);
                    verif_hooks::set_order_hook(None);
                    o
                });
                st.count("compilations", 1);
                if got == base {
                    st.nontrivial(&(ev, k, &p));
                } else {
                    st.violation(&format!("order/output-depends-on-iteration-order/{}", site), format!("{}: iterating the {} collection (visit {}, {} elements) in order {:?} gives {}, sorted order gives {}; every order is realisable under some hash seeding", evs[ev].name, site, k, n, p, show(&got), show(&base)), p.len(), json!({"kind": "c05-order", "event": evs[ev].name, "text": evs[ev].text, "site": site, "visit": k, "permutation": p}));
                }
            }
        }
        if !visits.is_empty() {
            st.sample(json!({"event": evs[ev].name, "site_visits": visits}));
        }
    }
    rep.states += st.evaluations;
    rep.transitions += st.evaluations;
    rep.traces += st.evaluations;
    rep.add_sub("iteration-orders", "every event in an optimising dialect: each visit of a hash-ordered loop in deinline_opt iterated in every permutation (<= 4 elements) or every transposition (more), one deviation at a time", st.evaluations, true, capped, st);

    // (4) schedules of two compiling threads
    let mut st = Stats::new();
    let mut capped = false;
    let t0 = std::time::Instant::now();
    let bound = if thorough { 2 } else { 1 };
    let by_name = |n: &str| evs.iter().position(|e| e.name.starts_with(n)).unwrap();
    let mut pairs: Vec<(usize, usize)> = vec![(by_name("zero-literals/cl21"), by_name("zero-literals/cl23.1"))];
    if thorough {
        pairs.push((by_name("let-in-defun/cl21"), by_name("inline+let*/cl24")));
        pairs.push((by_name("quoted-symbol/cl21"), by_name("assign+lambda/cl23")));
        pairs.push((by_name("FAIL:unbound-in-strict"), by_name("zero-literals/cl21")));
        pairs.push((by_name("macro+if/strict21"), by_name("deinline-candidates/cl24")));
    }
    for (a, b) in pairs {
        let mut stack: Vec<(Vec<usize>, usize)> = vec![(vec![], 0)];
        let mut execs = 0u64;
        while let Some((prefix, used)) = stack.pop() {
            if t0.elapsed() > Duration::from_secs(if thorough { 1500 } else { 45 }) {
                capped = true;
                break;
            }
            execs += 1;
            st.eval();
            ARGNAME_CTR.store(0, Ordering::SeqCst);
            let r = run_pair(&evs[a], &evs[b], &prefix);
            st.count("compilations", 2);
            st.count("scheduling-points", r.taken.len() as u64);
            let mut ok = true;
            for (i, ev) in [a, b].iter().enumerate() {
                if r.outs[i] != solo[*ev] {
                    ok = false;
                    st.violation(
                        &format!("schedule/thread-output-differs/{}", evs[*ev].name.split('/').next().unwrap_or("")),
                        format!("threads compiling {} and {} under schedule {:?} ({} points): thread {} gives {}, its solo run {}", evs[a].name, evs[b].name, compress(&r.taken), r.taken.len(), i, show(&r.outs[i]), show(&solo[*ev])),
                        r.taken.len(),
                        json!({"kind": "c05-schedule", "events": [evs[a].name, evs[b].name], "schedule": r.taken}),
                    );
                }
            }
            if ok {
                st.nontrivial(&(a, b, &r.taken));
                if prefix.len() == 3 {
                    st.sample(json!({"threads": [evs[a].name, evs[b].name], "schedule": compress(&r.taken), "points": r.taken.len()}));
                }
            }
            for i in prefix.len()..r.taken.len() {
                let running_enabled = r.running_at[i].is_some();
                for alt in &r.enabled_at[i] {
                    if *alt == r.taken[i] {
                        continue;
                    }
                    let c = used + if running_enabled { 1 } else { 0 };
                    if c > bound {
                        continue;
                    }
                    let mut p = r.taken[..i].to_vec();
                    p.push(*alt);
                    stack.push((p, c));
                }
            }
        }
        st.count(&format!("schedules[{}|{}]", evs[a].name, evs[b].name), execs);
    }
    rep.states += st.evaluations;
    rep.transitions += st.counters.get("compilations").copied().unwrap_or(0);
    rep.traces += st.evaluations;
    rep.add_sub("schedules", &format!("two compiling threads under a token-passing scheduler with scheduling points at every gensym and integer-mode set/restore; all interleavings with <= {} preemptions", bound), st.evaluations, true, capped, st);
    rep.finish()
}

fn compress(s: &[usize]) -> String {
    // run-length form: 0x12 1x3 0x40 …
    let mut out = vec![];
    let mut i = 0;
    while i < s.len() {
        let mut j = i;
        while j < s.len() && s[j] == s[i] {
            j += 1;
        }
        out.push(format!("{}x{}", s[i], j - i));
        i = j;
    }
    out.join(" ")
}

fn parse_output(v: &serde_json::Value) -> Output {
    let result = if let Some(h) = v["result"]["ok"].as_str() { Ok(h.to_string()) } else { Err(v["result"]["err"].as_str().unwrap_or("").to_string()) };
    let mut symbols = BTreeMap::new();
    if let Some(o) = v["symbols"].as_object() {
        for (k, x) in o {
            symbols.insert(k.clone(), x.as_str().unwrap_or("").to_string());
        }
    }
    Output { result, symbols }
}

pub fn all_perms_pub(n: usize) -> Vec<Vec<usize>> {
    all_perms(n)
}

fn all_perms(n: usize) -> Vec<Vec<usize>> {
    fn rec(cur: &mut Vec<usize>, n: usize, out: &mut Vec<Vec<usize>>) {
        if cur.len() == n {
            out.push(cur.clone());
            return;
        }
        for i in 0..n {
            if !cur.contains(&i) {
                cur.push(i);
                rec(cur, n, out);
                cur.pop();
            }
        }
    }
    let mut out = vec![];
    rec(&mut vec![], n, &mut out);
    out
}

fn transpositions(n: usize) -> Vec<Vec<usize>> {
    let mut out = vec![];
    for i in 0..n {
        for j in i + 1..n {
            let mut p: Vec<usize> = (0..n).collect();
            p.swap(i, j);
            out.push(p);
        }
    }
    out
}

#[allow(dead_code)]
fn _unused(_: E) {}
