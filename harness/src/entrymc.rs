//! Entry-point cross products: C11 (every compile entry point produces the same program)
//! and C18 (the dependency listing names every file a compilation reads).
use crate::gen::*;
use crate::lang::*;
use crate::oracle::Out;
use crate::par::{catch, par_range};
use crate::report::{Report, Stats};
use crate::subject::*;
use crate::tree::*;
use serde_json::json;
use std::collections::HashMap;
use std::rc::Rc;
use std::time::Duration;

use chialisp::classic::clvm::__type_compatibility__::{Bytes, BytesFromType, Stream};
use chialisp::classic::clvm::serialize::{sexp_from_stream, SimpleCreateCLVMObject};
use chialisp::classic::clvm_tools::clvmc::compile_clvm;
use chialisp::classic::clvm_tools::cmds::launch_tool;
use chialisp::compiler::compiler::DefaultCompilerOpts;
use chialisp::compiler::comptypes::CompilerOpts;
use chialisp::compiler::preprocessor::gather_dependencies;
use clvmr::allocator::Allocator;

fn tmpdir(tag: &str) -> String {
    let d = format!("/tmp/vmc-{}-{}-{:?}", tag, std::process::id(), std::thread::current().id()).replace(['(', ')'], "");
    let _ = std::fs::remove_dir_all(&d);
    std::fs::create_dir_all(&d).expect("mkdir");
    d
}

/// `run [-O] -i dirs… --symbol-output-file <tmp> <text>` through the tool's own entry function.
fn tool_run(text: &str, search: &[String], optimize: bool, scratch: &str, extra: &[&str]) -> Result<String, String> {
    let mut args: Vec<String> = vec!["run".to_string()];
    if optimize {
        args.push("-O".to_string());
    }
    for e in extra {
        args.push(e.to_string());
    }
    for d in search {
        args.push("-i".to_string());
        args.push(d.clone());
    }
    args.push("--symbol-output-file".to_string());
    args.push(format!("{}/tool.sym", scratch));
    args.push(text.to_string());
    catch(std::panic::AssertUnwindSafe(move || {
        let mut s = Stream::new(None);
        launch_tool(&mut s, &args, "run", 2);
        s.get_value().decode()
    }))
}

/// The program text `run` printed, assembled; error reports ("<location>: message", "FAIL: …") are errors.
fn tool_output_code(txt: &str) -> Result<T, String> {
    let t = txt.trim();
    let looks_like_code = t.starts_with('(') || (!t.is_empty() && !t.contains(' ') && !t.contains(':'));
    if !looks_like_code {
        return Err(t.chars().take(160).collect());
    }
    assemble(t).map_err(|e| format!("printed text does not assemble: {} ({})", e, t.chars().take(80).collect::<String>()))
}

fn has_bare_symbols(txt: &str) -> bool {
    let b = txt.as_bytes();
    let mut i = 0;
    let mut in_str = false;
    while i < b.len() {
        let c = b[i];
        if in_str {
            if c == b'\\' {
                i += 1;
            } else if c == b'"' {
                in_str = false;
            }
        } else if c == b'"' {
            in_str = true;
        } else if c == b'0' && i + 1 < b.len() && b[i + 1] == b'x' {
            i += 2;
            while i < b.len() && b[i].is_ascii_hexdigit() {
                i += 1;
            }
            continue;
        } else if c.is_ascii_alphabetic() {
            return true;
        }
        i += 1;
    }
    false
}

fn file_to_file(text: &str, search: &[String], scratch: &str) -> Result<T, String> {
    let inp = format!("{}/prog.clsp", scratch);
    let outp = format!("{}/prog.clsp.hex", scratch);
    let _ = std::fs::remove_file(&outp);
    std::fs::write(&inp, text).map_err(|e| e.to_string())?;
    let search = search.to_vec();
    let (i2, o2) = (inp.clone(), outp.clone());
    let r = catch(std::panic::AssertUnwindSafe(move || {
        let mut syms = HashMap::new();
        compile_clvm(&i2, &o2, &search, &mut syms)
    }))?;
    r?;
    let hex_text = std::fs::read_to_string(&outp).map_err(|e| format!("reading output: {}", e))?;
    let bytes = hex::decode(hex_text.trim()).map_err(|e| format!("output is not hex: {}", e))?;
    let mut a = Allocator::new();
    let mut s = Stream::new(Some(Bytes::new(Some(BytesFromType::Raw(bytes)))));
    sexp_from_stream(&mut a, &mut s, Box::new(SimpleCreateCLVMObject {})).map(|r| T::from_node(&a, r.1)).map_err(|e| format!("{}", e))
}

fn unquote_yaml(v: &str) -> String {
    let v = v.trim();
    if v.len() >= 2 && v.starts_with('"') && v.ends_with('"') {
        v[1..v.len() - 1].replace("\\\"", "\"").replace("\\\\", "\\")
    } else {
        v.to_string()
    }
}

fn parse_cldb_yaml(out: &str) -> Vec<HashMap<String, String>> {
    let mut rows: Vec<HashMap<String, String>> = vec![];
    for line in out.lines() {
        if line == "---" || line.trim().is_empty() {
            continue;
        }
        let (is_new, rest) = if let Some(r) = line.strip_prefix("- ") { (true, r) } else if let Some(r) = line.strip_prefix("  ") { (false, r) } else { continue };
        if is_new {
            rows.push(HashMap::new());
        }
        if let Some(idx) = rest.find(": ") {
            let (k, v) = rest.split_at(idx);
            if let Some(last) = rows.last_mut() {
                last.insert(k.to_string(), unquote_yaml(&v[2..]));
            }
        }
    }
    rows
}

fn row_view(r: &HashMap<String, String>) -> (Option<T>, Option<T>, Option<T>, Option<T>, bool) {
    let p = |k: &str| r.get(k).and_then(|s| crate::dbgmc::parse_value_pub(s).ok());
    (p("Operator"), p("Arguments"), p("Value"), p("Final"), r.contains_key("Failure") || r.contains_key("Throw"))
}

fn cldb_subprocess(text: &str, args_text: &str, search: &[String], optimize: bool) -> Result<String, String> {
    let exe = std::env::current_exe().map_err(|e| e.to_string())?;
    let mut cmd = std::process::Command::new(exe);
    cmd.arg("--cldb-entry");
    if optimize {
        cmd.arg("-O");
    }
    for d in search {
        cmd.arg("-i").arg(d);
    }
    cmd.arg(text).arg(args_text);
    let out = cmd.output().map_err(|e| e.to_string())?;
    if !out.status.success() {
        return Err(format!("cldb exited with {:?}: {}", out.status, String::from_utf8_lossy(&out.stderr).chars().take(200).collect::<String>()));
    }
    Ok(String::from_utf8_lossy(&out.stdout).to_string())
}

/// child mode: behave exactly like the cldb binary
pub fn cldb_entry_main(args: Vec<String>) -> ! {
    let mut v = vec!["cldb".to_string()];
    v.extend(args);
    chialisp::classic::clvm_tools::cmds::cldb(&v);
    std::process::exit(0);
}

struct C11Case {
    text: String,
    search: Vec<String>,
    sigil: bool,
    args_text: String,
    tag: String,
}

fn c11_cases(thorough: bool, incroot: &str) -> Vec<C11Case> {
    let mut out = vec![];
    let mut sigs: Vec<Option<&'static str>> = SIGILS.iter().map(|s| Some(*s)).collect();
    sigs.push(None);
    let classic_ok = |c: &Case| c.prog.helpers.iter().all(|h| matches!(h, Helper::Fun { params, .. } if !format!("{:?}", params).contains("At"))) && !c.prog.text().contains("&rest") && !c.prog.text().contains("(let") && !c.prog.text().contains("(assign") && !c.prog.text().contains("(lambda");
    for s in &sigs {
        let mut cases: Vec<Case> = vec![];
        for c in scope_chains(1) {
            cases.push(scope_case(&c, NamePolicy::Fresh, *s));
        }
        for p in param_patterns(2, &[3, 17]) {
            for kind in ["main", "defun-positional", "inline-positional"] {
                if let Some(c) = params_case(&p, kind, *s) {
                    cases.push(c);
                }
            }
        }
        for (i, c) in oplit_cases(*s).into_iter().enumerate() {
            if thorough || i % 9 == 0 {
                cases.push(c);
            }
        }
        cases.extend(calls_cases(*s, 2).into_iter().take(if thorough { 1000 } else { 12 }));
        for c in cases {
            if s.is_none() && !classic_ok(&c) {
                continue;
            }
            let a = c.args.first().cloned().unwrap_or_else(T::nil);
            out.push(C11Case { text: c.prog.text(), search: vec![], sigil: s.is_some(), args_text: crate::lang::datum_text(&a), tag: format!("generated/{}", c.tags.first().cloned().unwrap_or_default()) });
        }
        // include files through a two-directory search path; the same name exists in both with different contents
        let sg = s.map(|x| format!("(include {}) ", x)).unwrap_or_default();
        let d1 = format!("{}/d1", incroot);
        let d2 = format!("{}/d2", incroot);
        for (prog, tag) in [
            (format!("(mod (A) {}(include both.clinc) (c (both A) ONLYTWO))", sg), "include/shadowed-and-second-dir"),
            (format!("(mod (A) {}(include nested.clinc) (c (viaNested A) 1))", sg), "include/include-of-include"),
            (format!("(mod (A) {}(include only2.clinc) (c A ONLYTWO))", sg), "include/second-dir-only"),
        ] {
            out.push(C11Case { text: prog, search: vec![d1.clone(), d2.clone()], sigil: s.is_some(), args_text: "(5)".to_string(), tag: tag.to_string() });
        }
    }
    // where and how the dialect sigil is written: every entry point has its own way of finding it
    for (k, text) in [
        "(mod (A) (defun f (X) (+ X 1)) (include *standard-cl-21*) (f A))",
        "(mod (A) ; (include *standard-cl-21*)\n (defun f (X) (+ X 1)) (f A))",
        "(mod (A) (include *standard-cl-21*) (include *standard-cl-23*) (defun f (X) (+ X 1)) (f A))",
        "(mod (A) (include *standard-cl-23*) (include *standard-cl-21*) (defun f (X) (+ X 1)) (f A))",
        "(mod (A) (include \"*standard-cl-21*\") (defun f (X) (+ X 1)) (f A))",
        "(mod (A)\n\n  (include   *standard-cl-23*  )\n (defun f (X) (+ X 1)) (f A))",
        "(mod (A) (defun f (X) (let ((Y (include *standard-cl-21*))) X)) (f A))",
        "(mod (A) (include *standard-cl-24*) (defconstant S \"(include *standard-cl-21*)\") (c S A))",
        "(mod (A) (include *strict-cl-21*) (include *standard-cl-21*) (defun f (X) (+ X 1)) (f A))",
        "; (include *standard-cl-23*)\n(mod (A) (defun f (X) (+ X 1)) (f A))",
    ]
    .iter()
    .enumerate()
    {
        // these are compared for agreement of the compile entry points only (no debugger clause): sigil=false
        out.push(C11Case { text: text.to_string(), search: vec![], sigil: false, args_text: "(5)".to_string(), tag: format!("sigil-placement/{}", k) });
    }
    for (path, text) in crate::crashmc::shipped_seeds(if thorough { 8000 } else { 1200 }, if thorough { 150 } else { 16 }) {
        let dir = std::path::Path::new(&path).parent().map(|p| p.to_string_lossy().to_string()).unwrap_or_default();
        let sigil = detect_dialect(&text).map(|d| d.stepping.is_some()).unwrap_or(false);
        out.push(C11Case { text, search: std::iter::once(dir).chain(crate::subject::repo_search_paths()).collect(), sigil, args_text: "()".to_string(), tag: "shipped".to_string() });
    }
    out
}

fn write_include_files(root: &str) {
    for d in ["d1", "d2"] {
        std::fs::create_dir_all(format!("{}/{}", root, d)).expect("mkdir");
    }
    std::fs::write(format!("{}/d1/both.clinc", root), "(\n (defun both (X) (+ X 100))\n (include only2.clinc)\n)").unwrap();
    std::fs::write(format!("{}/d2/both.clinc", root), "(\n (defun both (X) (+ X 200))\n (defconstant ONLYTWO 999)\n)").unwrap();
    std::fs::write(format!("{}/d2/only2.clinc", root), "(\n (defconstant ONLYTWO 22)\n)").unwrap();
    std::fs::write(format!("{}/d1/nested.clinc", root), "(\n (include inner.clinc)\n (defun viaNested (X) (inner X))\n)").unwrap();
    std::fs::write(format!("{}/d2/inner.clinc", root), "(\n (defun-inline inner (X) (* X 3))\n)").unwrap();
    std::fs::write(format!("{}/d1/inner.clinc", root), "(\n (defun-inline inner (X) (* X 7))\n)").unwrap();
}

pub fn c11(thorough: bool, replay: Option<String>) -> i32 {
    let mut rep = Report::new("C11", if thorough { "thorough" } else { "quick" }, "exploration");
    rep.rule = "for every program (generated, shipped, and include-using programs resolved through a two-directory search path in which the same file name exists twice), with every sigil and without: the CLVM of (1) compile_clvm_text - the library entry behind the Python/JS bindings, (2) the text printed by the command-line `run -O` (launch_tool, which goes through RunAndCompileInputData and compile_modern) re-assembled, and (3) the file written by file-to-file compile_clvm re-read from disk must be byte-identical (all succeed identically or all fail). \
        For programs with a sigil, the trace printed by the cldb entry point (subprocess, YAML) for the source with and without -O must equal row for row (operator, arguments, value, final) the trace obtained by stepping the program that `run` with the same flag printed. non-trivial = distinct programs for which all entry points produced the same non-trivial code"
        .to_string();
    rep.assumptions = vec!["the pyo3 / wasm binding layers are not built; they call compile_clvm_text / compile_clvm, which are driven directly".to_string()];
    if replay.is_some() {
        let st = Stats::new();
        rep.add_sub("replay", "re-run the check; replay files carry the program text and search path", 0, false, false, st);
        return rep.finish();
    }
    let cap = Some(Duration::from_secs(if thorough { 3000 } else { 50 }));
    let incroot = tmpdir("c11inc");
    write_include_files(&incroot);
    let cases = c11_cases(thorough, &incroot);
    let n = cases.len() as u64;
    let (st, capped) = par_range(n, 4, cap, || tmpdir("c11"), |scratch, st, i| {
        let c = &cases[i as usize];
        st.eval();
        let replay = json!({"kind": "c11", "text": c.text, "search": c.search});
        let lib = library_compile(&c.text, &c.search, true).map(|x| x.code).map_err(|e| e.msg());
        let tool = tool_run(&c.text, &c.search, true, scratch, &[]).and_then(|txt| tool_output_code(&txt));
        let f2f = file_to_file(&c.text, &c.search, scratch);
        let all = [("library", &lib), ("run -O", &tool), ("file-to-file", &f2f)];
        let oks: Vec<&T> = all.iter().filter_map(|(_, r)| r.as_ref().ok()).collect();
        if oks.is_empty() {
            st.outcome("all-entry-points-reject");
        } else if oks.len() < 3 {
            st.outcome("SOME-REJECT");
            st.violation(&format!("entry-points-disagree-on-acceptance/{}", c.tag), format!("{}: {}", c.text.chars().take(300).collect::<String>(), all.iter().map(|(n, r)| format!("{} -> {}", n, r.as_ref().map(|t| t.short()).unwrap_or_else(|e| format!("ERROR {}", e)))).collect::<Vec<_>>().join(" ; ")), c.text.len(), replay.clone());
        } else if oks.iter().all(|t| **t == *oks[0]) {
            st.outcome("all-identical");
            if oks[0].leaves() > 3 {
                st.nontrivial(&c.text);
                st.sample(json!({"tag": c.tag, "program": c.text.chars().take(200).collect::<String>(), "code_hex": oks[0].hex().chars().take(120).collect::<String>()}));
            }
        } else {
            st.outcome("CODE-DIFFERS");
            st.violation(&format!("entry-points-emit-different-code/{}", c.tag), format!("{}: library {} ; run -O {} ; file-to-file {}", c.text.chars().take(300).collect::<String>(), oks[0].short(), oks[1].short(), oks[2].short()), c.text.len(), replay.clone());
        }
        // debugger vs run, for sigil programs (both flags)
        if c.sigil && (thorough || i % 3 == 0) {
            for opt in [false, true] {
                st.eval();
                let printed = match tool_run(&c.text, &c.search, opt, scratch, &[]) {
                    Ok(t) => t,
                    Err(_) => continue,
                };
                if has_bare_symbols(&printed) {
                    // the printed text contains bare symbols (quoted data with names): the classic assembler reads
                    // operator-spelled ones as opcodes by design, so the text is not a faithful handle on the program
                    st.outcome("printed-text-has-bare-symbols(no debugger claim)");
                    continue;
                }
                let prog = match tool_output_code(&printed) {
                    Ok(p) => p,
                    Err(_) => {
                        st.outcome("run-rejects(no debugger claim)");
                        continue;
                    }
                };
                let env = match assemble(&c.args_text) {
                    Ok(e) => e,
                    Err(_) => continue,
                };
                let yaml = match cldb_subprocess(&c.text, &c.args_text, &c.search, opt) {
                    Ok(y) => y,
                    Err(e) => {
                        st.violation(&format!("cldb-entry-failed/{}", c.tag), format!("cldb {} on {}: {}", if opt { "-O" } else { "" }, c.text.chars().take(200).collect::<String>(), e), c.text.len(), replay.clone());
                        continue;
                    }
                };
                let rows = parse_cldb_yaml(&yaml);
                let mine = {
                    let ps = to_sexp(&prog, Spell::Convert);
                    let es = to_sexp(&env, Spell::Convert);
                    crate::dbgmc::run_cldb(ps, es, None, false)
                };
                let a: Vec<_> = rows.iter().map(row_view).collect();
                let b: Vec<_> = mine.rows.iter().map(|r| row_view(&r.iter().map(|(k, v)| (k.clone(), v.clone())).collect())).collect();
                if rows.iter().any(|r| r.contains_key("Error")) {
                    st.outcome("cldb-compile-error");
                    st.violation(&format!("cldb-rejects-what-run-accepts/{}", c.tag), format!("cldb {} rejects {} ({:?}) although run with the same flag compiles it", if opt { "-O" } else { "" }, c.text.chars().take(200).collect::<String>(), rows.last()), c.text.len(), replay.clone());
                } else if a == b {
                    st.outcome("cldb-trace-equals-run-output-trace");
                    st.nontrivial(&(&c.text, opt));
                } else if !mine.ended && mine.panic.is_none() && a.len() >= b.len() && a[..b.len()] == b[..] {
                    // the harness's own stepping stopped at its step bound: the comparison covers that prefix
                    st.outcome("cldb-trace-equals-run-output-trace(up to the harness step bound)");
                    st.nontrivial(&(&c.text, opt));
                } else {
                    st.outcome("CLDB-TRACE-DIFFERS");
                    let k = a.iter().zip(b.iter()).position(|(x, y)| x != y).unwrap_or(a.len().min(b.len()));
                    let sig = if c.text.contains("*standard-cl-22*") && (yaml.contains("_$_") || mine.rows.iter().any(|r| r.values().any(|v| v.contains("_$_")))) { "cl22-frontend-optimiser/emitted-code-contains-generated-names".to_string() } else { format!("cldb-debugs-a-different-program/{}", c.tag) };
                    st.violation(&sig, format!("{} {}: cldb's trace ({} rows) differs at row {} from the trace of the program `run` printed ({} rows): {:?} vs {:?}", c.text.chars().take(200).collect::<String>(), if opt { "-O" } else { "" }, a.len(), k, b.len(), rows.get(k), mine.rows.get(k)), c.text.len(), replay.clone());
                }
            }
        }
    });
    // file-to-file histories: the output path may already hold something (the output of an earlier version of the
    // source, the up-to-date output, garbage), older than / as old as / newer than the source. Whenever the source is
    // not older than the output, compile_clvm must leave the program of the CURRENT source there.
    {
        let twins: Vec<(&str, &str)> = vec![
            ("", "(defun F (X) (+ X @K@)) (c (F A) A)"),
            ("(include *standard-cl-21*) ", "(defun F (X) (+ X @K@)) (c (F A) A)"),
            ("(include *standard-cl-23*) ", "(defun-inline F (X) (+ X @K@)) (c (F A) A)"),
            ("(include *standard-cl-24*) ", "(defconst K (+ 1 @K@)) (c (+ K A) A)"),
        ];
        let mut plan: Vec<(usize, &str, i64)> = vec![];
        for t in 0..twins.len() {
            for prior in ["absent", "output-of-the-previous-version", "up-to-date-output", "garbage"] {
                for rel in [-10i64, 0, 10] {
                    plan.push((t, prior, rel));
                }
            }
        }
        let n2 = plan.len() as u64;
        let (st2, capped2) = par_range(n2, 1, cap, || tmpdir("c11h"), |scratch, st, i| {
            st.eval();
            let (t, prior, rel) = plan[i as usize];
            let mk = |k: &str| format!("(mod (A) {}{})", twins[t].0, twins[t].1.replace("@K@", k));
            let (v1, v2) = (mk("5"), mk("7"));
            let want = match library_compile(&v2, &[], true) {
                Ok(c) => c.code,
                Err(_) => return,
            };
            let old = match library_compile(&v1, &[], true) {
                Ok(c) => c.code,
                Err(_) => return,
            };
            let inp = format!("{}/h.clsp", scratch);
            let outp = format!("{}/h.clsp.hex", scratch);
            let _ = std::fs::remove_file(&outp);
            std::fs::write(&inp, &v2).expect("write source");
            match prior {
                "absent" => {}
                "output-of-the-previous-version" => std::fs::write(&outp, format!("{}\n", old.hex())).expect("write out"),
                "up-to-date-output" => std::fs::write(&outp, format!("{}\n", want.hex())).expect("write out"),
                _ => std::fs::write(&outp, "zz not hex\n").expect("write out"),
            }
            // source mtime fixed; output mtime = source mtime - rel seconds (rel > 0: the source is NEWER than the output)
            let base = std::time::SystemTime::UNIX_EPOCH + Duration::from_secs(1_700_000_000);
            let set = |p: &str, t: std::time::SystemTime| {
                if let Ok(f) = std::fs::File::options().write(true).open(p) {
                    let _ = f.set_modified(t);
                }
            };
            set(&inp, base);
            if prior != "absent" {
                set(&outp, if rel >= 0 { base - Duration::from_secs(rel as u64) } else { base + Duration::from_secs((-rel) as u64) });
            }
            let (i2, o2) = (inp.clone(), outp.clone());
            let r = catch(std::panic::AssertUnwindSafe(move || {
                let mut syms = HashMap::new();
                compile_clvm(&i2, &o2, &[], &mut syms)
            }));
            let got = std::fs::read_to_string(&outp).ok().map(|s| s.trim().to_string());
            let replay = json!({"kind": "c11-history", "source": v2, "previous_source": v1, "prior_output": prior, "source_mtime_minus_output_mtime_s": rel});
            let must_be_current = prior == "absent" || rel >= 0;
            let ok_call = matches!(r, Ok(Ok(_)));
            if !must_be_current {
                st.outcome("source-older-than-output(skip permitted, no claim)");
                return;
            }
            if ok_call && got.as_deref() == Some(want.hex().as_str()) {
                st.outcome(&format!("current-program-written/{}", prior));
                st.nontrivial(&(t, prior, rel));
                st.sample(json!({"source": v2, "prior_output": prior, "source_mtime_minus_output_mtime_s": rel}));
            } else {
                st.violation(&format!("file-to-file/stale-or-wrong-output/{}/{}", prior, if rel == 0 { "equal-mtimes" } else { "source-newer" }), format!("{} with the output path holding {} and the source {} s newer than it: compile_clvm returned {:?} and the output path holds {:?}, the current source compiles to {}", v2, prior, rel, r.map(|x| x.map(|_| ())), got.map(|g| g.chars().take(40).collect::<String>()), want.hex().chars().take(40).collect::<String>()), v2.len(), replay);
            }
        });
        sweep_tmp("vmc-c11h");
        rep.add_sub("file-to-file-histories", "4 programs (classic, cl21, cl23, cl24) x output path {absent, output of the previous version of the source, up-to-date output, garbage} x source mtime {10 s older, equal, 10 s newer} than the output: compile_clvm must leave the current source's program whenever the source is not older than the output", n2, true, capped2, st2);
    }
    let _ = std::fs::remove_dir_all(&incroot);
    sweep_tmp("vmc-c11");
    rep.add_sub("entry-points", &format!("{} programs: generated (7 sigil settings), include-using (3 shapes x 7), shipped", n), n, true, capped, st);
    rep.finish()
}

fn sweep_tmp(prefix: &str) {
    if let Ok(rd) = std::fs::read_dir("/tmp") {
        for e in rd.flatten() {
            if e.file_name().to_string_lossy().starts_with(prefix) {
                let _ = std::fs::remove_dir_all(e.path());
            }
        }
    }
}

// ---------------------------------------------------------------------------
// C18

#[derive(Clone, Debug)]
struct FileSpec {
    name: &'static str,
    /// which of the 3 directories hold a file of this name
    dirs: u8,
}

#[derive(Clone, Debug)]
struct DepConfig {
    host: String,
    files: Vec<(String, Vec<u8>)>, // (dir/name, content)
    order: Vec<usize>,
    tag: String,
}

fn dep_configs(thorough: bool) -> Vec<DepConfig> {
    // include graph shapes over files a.clinc, b.clinc, data.bin / data.hex / data.sexp
    // shape: list of (host forms, per-file contents as functions of the directory index)
    let hosts: Vec<(&str, &str)> = if thorough { vec![("classic", ""), ("cl21", "(include *standard-cl-21*) "), ("cl23", "(include *standard-cl-23*) "), ("cl24", "(include *standard-cl-24*) ")] } else { vec![("classic", ""), ("cl21", "(include *standard-cl-21*) "), ("cl24", "(include *standard-cl-24*) ")] };
    let perms: Vec<Vec<usize>> = if thorough { vec![vec![0, 1, 2], vec![0, 2, 1], vec![1, 0, 2], vec![1, 2, 0], vec![2, 0, 1], vec![2, 1, 0]] } else { vec![vec![0, 1, 2], vec![2, 1, 0], vec![1, 2, 0]] };
    let mut out = vec![];
    // file presence masks over the three directories (non-empty subsets)
    let masks: Vec<u8> = if thorough { (1..8).collect() } else { vec![1, 2, 4, 3, 6, 7] };
    // file-name policies: how the three file names are spelled in the source and on disk.
    // (written form, on-disk relative path) as functions of the plain stem and extension
    const POLICIES: [&str; 8] = ["plain", "star-led", "subdirectory", "quoted-with-space", "dialect-name-led", "no-extension", "dot-led", "absolute-path-outside-the-search-directories"];
    fn spell(policy: usize, stem: &str, ext: &str) -> (String, String) {
        match policy {
            0 => (format!("{}.{}", stem, ext), format!("{}.{}", stem, ext)),
            1 => (format!("*{}*.{}", stem, ext), format!("*{}*.{}", stem, ext)),
            2 => (format!("sub/{}.{}", stem, ext), format!("sub/{}.{}", stem, ext)),
            3 => (format!("\"{} file.{}\"", stem, ext), format!("{} file.{}", stem, ext)),
            4 => (format!("*standard-cl-21*{}.{}", stem, ext), format!("*standard-cl-21*{}.{}", stem, ext)),
            5 => (format!("{}{}", stem, ext), format!("{}{}", stem, ext)),
            // written as an absolute path (the run-time root is substituted for @ROOT@); the file lives in ONE
            // directory that is not on the search path
            7 => (format!("\"@ROOT@/outside/{}.{}\"", stem, ext), format!("outside/{}.{}", stem, ext)),
            _ => (format!(".{}.{}", stem, ext), format!(".{}.{}", stem, ext)),
        }
    }
    for (hname, sig) in &hosts {
        for policy in 0..POLICIES.len() {
            for shape in 0..8 {
                // shapes 6 and 7: two DIFFERENT files with the same base name, one written with a directory (sub/a.clinc),
                // one bare (a.clinc), in both orders - plain spelling only
                if shape >= 6 && policy != 0 {
                    continue;
                }
                for &ma in &masks {
                    for &mb in if thorough { masks.clone() } else { vec![1, 6] }.iter() {
                        for (oi, order) in perms.iter().enumerate() {
                            if policy != 0 {
                                // the naming dimension is crossed with a reduced presence/order set
                                let small = |m: u8| m == 1 || m == 6;
                                if shape == 0 || !small(ma) || !small(mb) || (!thorough && oi > 1) {
                                    continue;
                                }
                            }
                            let (a_w, a_d) = spell(policy, "a", "clinc");
                            let (b_w, b_d) = spell(policy, "b", "clinc");
                            let (bin_w, bin_d) = spell(policy, "data", "bin");
                            let (hex_w, hex_d) = spell(policy, "data", "hex");
                            let (sx_w, sx_d) = spell(policy, "data", "sexp");
                            let mut files: Vec<(String, Vec<u8>)> = vec![];
                            let host = match shape {
                                0 => format!("(mod (X) {}(c X 1))", sig),
                                1 => format!("(mod (X) {}(include {}) (c X (fa 1)))", sig, a_w),
                                2 => format!("(mod (X) {}(include {}) (c X (fb 1)))", sig, a_w), // a includes b
                                3 => format!("(mod (X) {}(embed-file DATA bin {}) (c X DATA))", sig, bin_w),
                                4 => format!("(mod (X) {}(include {}) (c X EMB))", sig, a_w), // a embeds hex
                                5 => format!("(mod (X) {}(embed-file S sexp {}) (include {}) (c S (fa X)))", sig, sx_w, a_w),
                                6 => format!("(mod (X) {}(include sub/a.clinc) (include a.clinc) (c (fa X) (fs 1)))", sig),
                                _ => format!("(mod (X) {}(include a.clinc) (include sub/a.clinc) (c (fa X) (fs 1)))", sig),
                            };
                            for d in 0..3u8 {
                                if ma & (1 << d) != 0 {
                                    let body = match shape {
                                        2 => format!("(\n (include {})\n (defun fa (Y) (+ Y {}))\n)", b_w, 10 + d),
                                        4 => format!("(\n (embed-file EMB hex {})\n (defun fa (Y) (+ Y {}))\n)", hex_w, 10 + d),
                                        _ => format!("(\n (defun fa (Y) (+ Y {}))\n)", 10 + d),
                                    };
                                    if shape >= 6 {
                                        files.push((format!("d{}/sub/a.clinc", d), format!("(\n (defun fs (Y) (* Y {}))\n)", 30 + d).into_bytes()));
                                    }
                                    if shape != 0 && shape != 3 {
                                        if policy == 7 {
                                            if !files.iter().any(|(p, _)| *p == a_d) {
                                                files.push((a_d.clone(), body.into_bytes()));
                                            }
                                        } else {
                                            files.push((format!("d{}/{}", d, a_d), body.into_bytes()));
                                        }
                                    }
                                }
                                if mb & (1 << d) != 0 {
                                    let place = |rel: &str, files: &Vec<(String, Vec<u8>)>| -> Option<String> {
                                        if policy == 7 {
                                            if files.iter().any(|(p, _)| p == rel) {
                                                None
                                            } else {
                                                Some(rel.to_string())
                                            }
                                        } else {
                                            Some(format!("d{}/{}", d, rel))
                                        }
                                    };
                                    match shape {
                                        2 => {
                                            if let Some(pth) = place(&b_d, &files) {
                                                files.push((pth, format!("(\n (defun fb (Y) (* Y {}))\n)", 20 + d).into_bytes()))
                                            }
                                        }
                                        3 => {
                                            if let Some(pth) = place(&bin_d, &files) {
                                                files.push((pth, format!("bin{}", d).into_bytes()))
                                            }
                                        }
                                        4 => {
                                            if let Some(pth) = place(&hex_d, &files) {
                                                files.push((pth, format!("ff0{}", d).into_bytes()))
                                            }
                                        }
                                        5 => {
                                            if let Some(pth) = place(&sx_d, &files) {
                                                files.push((pth, format!("(1 2 {})", d).into_bytes()))
                                            }
                                        }
                                        _ => {}
                                    }
                                }
                            }
                            if shape == 0 && (ma != 1 || mb != 1) {
                                continue;
                            }
                            if (shape == 1 || shape >= 6) && mb != 1 {
                                continue;
                            }
                            if shape == 3 && ma != 1 {
                                continue;
                            }
                            let tag = if policy == 0 { format!("{}/shape{}", hname, shape) } else { format!("{}/shape{}/names:{}", hname, shape, POLICIES[policy]) };
                            out.push(DepConfig { host, files, order: order.clone(), tag });
                        }
                    }
                }
            }
        }
    }
    out
}

fn compile_outcome(text: &str, search: &[String]) -> String {
    match library_compile(text, search, true) {
        Ok(c) => format!("ok:{}", c.code.hex()),
        Err(e) => format!("err:{}", e.msg().chars().take(80).collect::<String>()),
    }
}

fn check_c18(st: &mut Stats, cfg0: &DepConfig, root: &str) {
    st.eval();
    // absolute-path spellings carry a placeholder for the run-time root
    let cfg = &DepConfig { host: cfg0.host.replace("@ROOT@", root), files: cfg0.files.iter().map(|(p, c)| (p.clone(), String::from_utf8_lossy(c).replace("@ROOT@", root).into_bytes())).collect(), order: cfg0.order.clone(), tag: cfg0.tag.clone() };
    let _ = std::fs::remove_dir_all(root);
    for d in 0..3 {
        std::fs::create_dir_all(format!("{}/d{}", root, d)).expect("mkdir");
    }
    for (p, c) in &cfg.files {
        let full = format!("{}/{}", root, p);
        if let Some(parent) = std::path::Path::new(&full).parent() {
            std::fs::create_dir_all(parent).expect("mkdir");
        }
        std::fs::write(full, c).expect("write");
    }
    let search: Vec<String> = cfg.order.iter().map(|d| format!("{}/d{}", root, d)).collect();
    let replay = json!({"kind": "c18", "host": cfg.host, "files": cfg.files.iter().map(|(p, c)| json!({"path": p, "content": String::from_utf8_lossy(c)})).collect::<Vec<_>>(), "search_order": cfg.order});
    let base = compile_outcome(&cfg.host, &search);
    // which files are read: perturb each file in turn
    let mut read: Vec<String> = vec![];
    for (p, c) in &cfg.files {
        let full = format!("{}/{}", root, p);
        let perturbed: Vec<u8> = if p.ends_with("clinc") { String::from_utf8_lossy(c).replace("(+ Y ", "(+ Y 7").replace("(* Y ", "(* Y 7").into_bytes() } else if p.ends_with("hex") { b"aa55".to_vec() } else if p.ends_with("sexp") { b"(9 9 9)".to_vec() } else { b"PERTURBED".to_vec() };
        std::fs::write(&full, &perturbed).expect("write");
        let now = compile_outcome(&cfg.host, &search);
        std::fs::write(&full, c).expect("restore");
        if now != base {
            read.push(full);
        }
    }
    // the listing
    let host2 = cfg.host.clone();
    let search2 = search.clone();
    let listing: Result<Vec<String>, String> = catch(std::panic::AssertUnwindSafe(move || {
        let opts: Rc<dyn CompilerOpts> = Rc::new(DefaultCompilerOpts::new("*verif*"));
        let opts = opts.set_search_paths(&search2);
        gather_dependencies(opts, "*verif*", &host2).map(|v| v.into_iter().map(|d| String::from_utf8_lossy(&d.name).to_string()).collect()).map_err(|e| format!("{}: {}", e.0, e.1))
    }))
    .and_then(|r| r);
    let listing = match listing {
        Ok(l) => l,
        Err(e) => {
            if base.starts_with("ok:") {
                st.outcome("listing-fails-but-compile-succeeds");
                // the failure class is identified by host dialect and graph shape; the spelling of the file names does not enter it
                st.violation(&format!("listing-error/{}", cfg.tag.split("/names:").next().unwrap_or(&cfg.tag)), format!("{} compiles but the dependency listing fails: {}", cfg.host, e), cfg.files.len(), replay);
            } else {
                st.outcome("both-fail");
            }
            return;
        }
    };
    st.outcome(&format!("read:{}/listed:{}", read.len(), listing.len()));
    let mut ok = true;
    for r in &read {
        if !listing.iter().any(|l| std::path::Path::new(l) == std::path::Path::new(r)) {
            ok = false;
            let kind = if r.ends_with("clinc") { "include" } else { "embed-file" };
            st.violation(&format!("read-but-not-listed/{}/{}", kind, cfg.tag), format!("{} with search order {:?}: {} is read (perturbing it changes the output) but the listing is {:?}", cfg.host, cfg.order, r, listing), cfg.files.len(), replay.clone());
        }
    }
    for l in &listing {
        // each listed name must be the first match in search-path order
        let name = search.iter().find_map(|d| l.strip_prefix(&format!("{}/", d)).map(|x| x.to_string())).unwrap_or_else(|| std::path::Path::new(l).file_name().map(|s| s.to_string_lossy().to_string()).unwrap_or_default());
        if !search.iter().any(|d| l.starts_with(&format!("{}/", d))) && l.starts_with(&format!("{}/outside/", root)) && std::path::Path::new(l).exists() {
            // a file named by its absolute path outside the search directories: it is the file itself
            continue;
        }
        let first = search.iter().map(|d| format!("{}/{}", d, name)).find(|p| std::path::Path::new(p).exists());
        match first {
            Some(f) if std::path::Path::new(&f) == std::path::Path::new(l) => {}
            other => {
                ok = false;
                st.violation(&format!("listed-file-is-not-the-first-match/{}", cfg.tag), format!("{} with search order {:?}: listing names {} but the first match is {:?}", cfg.host, cfg.order, l, other), cfg.files.len(), replay.clone());
            }
        }
    }
    if ok && !read.is_empty() {
        st.nontrivial(&(cfg.host.clone(), cfg.files.clone(), cfg.order.clone()));
        st.sample(json!({"host": cfg.host, "search_order": cfg.order, "files": cfg.files.iter().map(|(p, _)| p.clone()).collect::<Vec<_>>(), "read": read.iter().map(|r| r.replace(root, "")).collect::<Vec<_>>(), "listed": listing.iter().map(|r| r.replace(root, "")).collect::<Vec<_>>()}));
    }
}

pub fn c18(thorough: bool, replay: Option<String>) -> i32 {
    let mut rep = Report::new("C18", if thorough { "thorough" } else { "quick" }, "exploration");
    rep.rule = "every include-graph configuration of the stated family: 8 graph shapes (no include; plain include; include of an include; embed-file bin directly; embed-file hex inside an included file; embed-file sexp next to an include; two different files with one base name, written sub/a.clinc and a.clinc, in both orders) x 8 file-name spellings (plain, *star-led*, in a subdirectory, quoted with a space, led by a dialect name, without extension, dot-led, absolute path outside the search directories; the non-plain spellings over a reduced presence/order set) x every presence pattern of each file name in 3 search directories (different contents per directory) x search-path permutations x host dialects. \
        The files a compilation reads are determined without hooks: each file on disk is perturbed in turn and the program recompiled through compile_clvm_text; if the output (or error status) changes, the file was read. Every file so detected must be in gather_dependencies' listing, and every listed path must be the first match for its name in search-path order. non-trivial = distinct configurations with at least one file read and a correct listing"
        .to_string();
    rep.assumptions = vec!["a file whose perturbation cannot change the output (it is shadowed, or not reachable) is correctly treated as not read".to_string()];
    if replay.is_some() {
        let st = Stats::new();
        rep.add_sub("replay", "re-run the check; replay files carry host text, files and search order", 0, false, false, st);
        return rep.finish();
    }
    let cap = Some(Duration::from_secs(if thorough { 3000 } else { 50 }));
    let cfgs = dep_configs(thorough);
    let n = cfgs.len() as u64;
    let (st, capped) = par_range(n, 8, cap, || tmpdir("c18"), |root, st, i| check_c18(st, &cfgs[i as usize], root));
    sweep_tmp("vmc-c18");
    rep.add_sub("include-graphs", &format!("{} configurations", n), n, true, capped, st);
    rep.finish()
}

#[allow(dead_code)]
fn _unused(_: Out, _: E) {}
