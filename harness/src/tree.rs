//! Harness-owned CLVM value type and bounded-exhaustive tree enumerators.
//! Nothing here calls repository code: values are built and compared in the
//! harness's own representation and cross the boundary only as clvmr nodes or
//! bytes.
use clvmr::allocator::{Allocator, NodePtr, SExp as CSExp};
use std::fmt;

#[derive(Clone, PartialEq, Eq, Hash, PartialOrd, Ord)]
pub enum T {
    A(Vec<u8>),
    P(Box<T>, Box<T>),
}

impl T {
    pub fn nil() -> T {
        T::A(vec![])
    }
    pub fn a(b: &[u8]) -> T {
        T::A(b.to_vec())
    }
    pub fn int(v: i64) -> T {
        T::A(int_bytes(v))
    }
    pub fn p(a: T, b: T) -> T {
        T::P(Box::new(a), Box::new(b))
    }
    pub fn list(items: &[T]) -> T {
        let mut r = T::nil();
        for i in items.iter().rev() {
            r = T::p(i.clone(), r);
        }
        r
    }
    pub fn list_tail(items: &[T], tail: T) -> T {
        let mut r = tail;
        for i in items.iter().rev() {
            r = T::p(i.clone(), r);
        }
        r
    }
    pub fn is_nil(&self) -> bool {
        matches!(self, T::A(v) if v.is_empty())
    }
    pub fn leaves(&self) -> usize {
        match self {
            T::A(_) => 1,
            T::P(a, b) => a.leaves() + b.leaves(),
        }
    }
    pub fn to_node(&self, a: &mut Allocator) -> NodePtr {
        match self {
            T::A(v) => a.new_atom(v).expect("atom alloc"),
            T::P(x, y) => {
                let l = x.to_node(a);
                let r = y.to_node(a);
                a.new_pair(l, r).expect("pair alloc")
            }
        }
    }
    pub fn from_node(a: &Allocator, n: NodePtr) -> T {
        // iterative on the right spine to survive long lists
        let mut items = vec![];
        let mut cur = n;
        loop {
            match a.sexp(cur) {
                CSExp::Atom => {
                    let tail = T::A(a.atom(cur).as_ref().to_vec());
                    return T::list_tail(&items, tail);
                }
                CSExp::Pair(l, r) => {
                    items.push(T::from_node(a, l));
                    cur = r;
                }
            }
        }
    }
    /// Canonical CLVM serialisation, written independently of both the
    /// repository and clvmr (used for replay files and as a third witness).
    pub fn ser(&self, out: &mut Vec<u8>) {
        match self {
            T::P(a, b) => {
                out.push(0xff);
                a.ser(out);
                b.ser(out);
            }
            T::A(v) => {
                let n = v.len();
                if n == 0 {
                    out.push(0x80);
                } else if n == 1 && v[0] < 0x80 {
                    out.push(v[0]);
                } else {
                    if n < 0x40 {
                        out.push(0x80 | n as u8);
                    } else if n < 0x2000 {
                        out.push(0xc0 | (n >> 8) as u8);
                        out.push(n as u8);
                    } else if n < 0x100000 {
                        out.push(0xe0 | (n >> 16) as u8);
                        out.push((n >> 8) as u8);
                        out.push(n as u8);
                    } else if n < 0x8000000 {
                        out.push(0xf0 | (n >> 24) as u8);
                        out.push((n >> 16) as u8);
                        out.push((n >> 8) as u8);
                        out.push(n as u8);
                    } else {
                        out.push(0xf8 | ((n as u64) >> 32) as u8);
                        out.push((n >> 24) as u8);
                        out.push((n >> 16) as u8);
                        out.push((n >> 8) as u8);
                        out.push(n as u8);
                    }
                    out.extend_from_slice(v);
                }
            }
        }
    }
    pub fn bytes(&self) -> Vec<u8> {
        let mut v = vec![];
        self.ser(&mut v);
        v
    }
    pub fn hex(&self) -> String {
        hex::encode(self.bytes())
    }
    pub fn short(&self) -> String {
        let s = format!("{}", self);
        if s.len() > 400 {
            format!("{}…[{} chars]", &s[..400], s.len())
        } else {
            s
        }
    }
}

/// Minimal signed big-endian encoding of an i64 (CLVM integer atom).
pub fn int_bytes(v: i64) -> Vec<u8> {
    if v == 0 {
        return vec![];
    }
    let b = v.to_be_bytes();
    let mut i = 0;
    while i < 7 {
        let drop_ok = (b[i] == 0x00 && b[i + 1] & 0x80 == 0) || (b[i] == 0xff && b[i + 1] & 0x80 != 0);
        if drop_ok {
            i += 1;
        } else {
            break;
        }
    }
    b[i..].to_vec()
}

fn fmt_atom(v: &[u8], f: &mut fmt::Formatter<'_>) -> fmt::Result {
    if v.is_empty() {
        write!(f, "()")
    } else if v.len() <= 2 {
        // small: decimal (signed) when canonical, else hex
        let mut n: i64 = if v[0] & 0x80 != 0 { -1 } else { 0 };
        for b in v {
            n = (n << 8) | (*b as i64);
        }
        if int_bytes(n) == v {
            write!(f, "{}", n)
        } else {
            write!(f, "0x{}", hex::encode(v))
        }
    } else {
        write!(f, "0x{}", hex::encode(v))
    }
}

impl fmt::Display for T {
    fn fmt(&self, f: &mut fmt::Formatter<'_>) -> fmt::Result {
        match self {
            T::A(v) => fmt_atom(v, f),
            T::P(a, b) => {
                write!(f, "(")?;
                a.fmt(f)?;
                let mut cur: &T = b;
                loop {
                    match cur {
                        T::A(v) if v.is_empty() => break,
                        T::A(v) => {
                            write!(f, " . ")?;
                            fmt_atom(v, f)?;
                            break;
                        }
                        T::P(x, y) => {
                            write!(f, " ")?;
                            x.fmt(f)?;
                            cur = y;
                        }
                    }
                }
                write!(f, ")")
            }
        }
    }
}
impl fmt::Debug for T {
    fn fmt(&self, f: &mut fmt::Formatter<'_>) -> fmt::Result {
        fmt::Display::fmt(self, f)
    }
}

// ---------------------------------------------------------------------------
// Shapes: binary trees with n unlabeled leaves, enumerated in a fixed order.

#[derive(Clone, Debug)]
pub enum Shape {
    L,
    N(Box<Shape>, Box<Shape>),
}

pub fn shapes(n: usize) -> Vec<Shape> {
    if n == 1 {
        return vec![Shape::L];
    }
    let mut out = vec![];
    for k in 1..n {
        let ls = shapes(k);
        let rs = shapes(n - k);
        for l in &ls {
            for r in &rs {
                out.push(Shape::N(Box::new(l.clone()), Box::new(r.clone())));
            }
        }
    }
    out
}

fn fill(s: &Shape, alpha: &[T], digits: &mut u64) -> T {
    match s {
        Shape::L => {
            let k = alpha.len() as u64;
            let d = (*digits % k) as usize;
            *digits /= k;
            alpha[d].clone()
        }
        Shape::N(l, r) => {
            let a = fill(l, alpha, digits);
            let b = fill(r, alpha, digits);
            T::p(a, b)
        }
    }
}

/// All trees with exactly 1..=max_leaves leaves over `alpha`, random access by
/// index. Order: by leaf count, then shape, then labelling (mixed radix).
pub struct TreeSpace {
    pub alpha: Vec<T>,
    blocks: Vec<(u64, Vec<Shape>, u64)>, // (start, shapes, labelings per shape)
    pub total: u64,
}

impl TreeSpace {
    pub fn new(alpha: Vec<T>, max_leaves: usize) -> TreeSpace {
        let mut blocks = vec![];
        let mut total = 0u64;
        for n in 1..=max_leaves {
            let sh = shapes(n);
            let per = (alpha.len() as u64).pow(n as u32);
            let cnt = per * sh.len() as u64;
            blocks.push((total, sh, per));
            total += cnt;
        }
        TreeSpace { alpha, blocks, total }
    }
    pub fn get(&self, i: u64) -> T {
        for (start, sh, per) in self.blocks.iter().rev() {
            if i >= *start {
                let off = i - start;
                let si = (off / per) as usize;
                let mut d = off % per;
                return fill(&sh[si], &self.alpha, &mut d);
            }
        }
        unreachable!()
    }
}

/// All byte strings of length 0..=k, random access.
pub fn bytes_upto_count(k: usize) -> u64 {
    (0..=k).map(|n| 256u64.pow(n as u32)).sum()
}
pub fn bytes_upto_get(mut i: u64) -> Vec<u8> {
    let mut n = 0usize;
    loop {
        let c = 256u64.pow(n as u32);
        if i < c {
            break;
        }
        i -= c;
        n += 1;
    }
    let mut v = vec![0u8; n];
    for j in (0..n).rev() {
        v[j] = (i & 0xff) as u8;
        i >>= 8;
    }
    v
}

/// All strings of length 0..=k over an alphabet of byte values.
pub fn strings_upto_count(alpha: usize, k: usize) -> u64 {
    (0..=k).map(|n| (alpha as u64).pow(n as u32)).sum()
}
pub fn strings_upto_get(alpha: &[u8], mut i: u64) -> Vec<u8> {
    let a = alpha.len() as u64;
    let mut n = 0usize;
    loop {
        let c = a.pow(n as u32);
        if i < c {
            break;
        }
        i -= c;
        n += 1;
    }
    let mut v = vec![0u8; n];
    for j in (0..n).rev() {
        v[j] = alpha[(i % a) as usize];
        i /= a;
    }
    v
}

/// One representative per byte class any printer/reader/serialiser branches on.
pub const CLASS: [u8; 31] = [
    0x00, 0x01, 0x08, 0x09, 0x0a, 0x0d, 0x20, b'!', b'"', b'#', b'\'', b'(', b')', b'-', b'.', b'0',
    b'1', b'9', b';', b'A', b'a', b'q', b'x', b'\\', 0x7e, 0x7f, 0x80, 0xbf, 0xc0, 0xfe, 0xff,
];

/// A deterministic, position-dependent fill so truncation/offset errors change the value.
pub fn pattern_atom(len: usize) -> Vec<u8> {
    (0..len).map(|i| ((i * 131 + (i >> 8) * 17 + 7) & 0xff) as u8).collect()
}

/// Minimal signed big-endian encoding of a bigint (CLVM integer atom; zero is empty).
pub fn int_bytes_big(n: &num_bigint::BigInt) -> Vec<u8> {
    use num_traits::Zero;
    if n.is_zero() {
        vec![]
    } else {
        n.to_signed_bytes_be()
    }
}
