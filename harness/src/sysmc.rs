//! C19 — the output file is replaced atomically. A ptrace-based syscall scheduler /
//! fault injector drives the real output-writing routine (in a subject process) one
//! file-system syscall at a time: crash points, short writes, injected errnos and
//! interleavings of several writers, with the controller acting as concurrent reader
//! after every step.
use crate::par::par_range;
use crate::report::{Report, Stats};
use serde_json::json;
use std::os::unix::process::CommandExt;
use std::time::Duration;

const SYS_READ: i64 = 0;
const SYS_WRITE: i64 = 1;
const SYS_OPEN: i64 = 2;
const SYS_CLOSE: i64 = 3;
const SYS_PWRITE64: i64 = 18;
const SYS_FSYNC: i64 = 74;
const SYS_FDATASYNC: i64 = 75;
const SYS_FTRUNCATE: i64 = 77;
const SYS_RENAME: i64 = 82;
const SYS_CREAT: i64 = 85;
const SYS_LINK: i64 = 86;
const SYS_UNLINK: i64 = 87;
const SYS_CHMOD: i64 = 90;
const SYS_FCHMOD: i64 = 91;
const SYS_OPENAT: i64 = 257;
const SYS_UNLINKAT: i64 = 263;
const SYS_RENAMEAT: i64 = 264;
const SYS_LINKAT: i64 = 265;
const SYS_FCHMODAT: i64 = 268;
const SYS_RENAMEAT2: i64 = 316;
const SYS_OPENAT2: i64 = 437;

fn sysname(nr: i64) -> &'static str {
    match nr {
        SYS_READ => "read",
        SYS_WRITE => "write",
        SYS_OPEN => "open",
        SYS_CLOSE => "close",
        SYS_PWRITE64 => "pwrite64",
        SYS_FSYNC => "fsync",
        SYS_FDATASYNC => "fdatasync",
        SYS_FTRUNCATE => "ftruncate",
        SYS_RENAME => "rename",
        SYS_CREAT => "creat",
        SYS_LINK => "link",
        SYS_UNLINK => "unlink",
        SYS_CHMOD => "chmod",
        SYS_FCHMOD => "fchmod",
        SYS_OPENAT => "openat",
        SYS_UNLINKAT => "unlinkat",
        SYS_RENAMEAT => "renameat",
        SYS_LINKAT => "linkat",
        SYS_FCHMODAT => "fchmodat",
        SYS_RENAMEAT2 => "renameat2",
        SYS_OPENAT2 => "openat2",
        _ => "other",
    }
}

/// Subject side: `vmc --fs-subject gentle <out> <data>` / `compile <in> <out>`
pub fn fs_subject_main(args: Vec<String>) -> ! {
    let r = match args.first().map(|s| s.as_str()) {
        Some("gentle") => chialisp::util::gentle_overwrite("input.clsp", &args[1], &args[2]),
        Some("compile") => {
            let mut syms = std::collections::HashMap::new();
            chialisp::classic::clvm_tools::clvmc::compile_clvm(&args[1], &args[2], &[], &mut syms).map(|_| ())
        }
        // `gentle-threads <out> <result-prefix> <data1> <data2> ...`: one writer THREAD per datum (same process id);
        // each thread records its own outcome in <result-prefix><i> (outside the target directory)
        Some("gentle-threads") => {
            let out = args[1].clone();
            let prefix = args[2].clone();
            let hs: Vec<_> = args[3..]
                .iter()
                .enumerate()
                .map(|(i, d)| {
                    let (out, d, prefix) = (out.clone(), d.clone(), prefix.clone());
                    std::thread::spawn(move || {
                        let r = chialisp::util::gentle_overwrite("input.clsp", &out, &d);
                        let _ = std::fs::write(format!("{}{}", prefix, i), if r.is_ok() { "ok" } else { "err" });
                    })
                })
                .collect();
            for h in hs {
                let _ = h.join();
            }
            Ok(())
        }
        _ => Err("bad subject command".to_string()),
    };
    match r {
        Ok(()) => {
            println!("SUBJECT-OK");
            std::process::exit(0)
        }
        Err(e) => {
            println!("SUBJECT-ERR {}", e);
            std::process::exit(1)
        }
    }
}

struct Tracee {
    /// true for a thread of a multi-threaded subject (waited for with __WALL, never killed on its own)
    is_thread: bool,
    /// set when the tracee did not reach its next stop within the limit (blocked on another, stopped, thread)
    blocked: bool,
    pid: i32,
    /// fds opened on paths inside the target directory
    fds: Vec<i64>,
    in_syscall: bool,
    alive: bool,
    exit_code: Option<i32>,
    /// current relevant syscall (set at its entry stop)
    cur: Option<(i64, String)>,
    /// bytes requested by the current write
    pending_write_len: u64,
}

fn ptrace(req: libc::c_uint, pid: i32, addr: usize, data: usize) -> i64 {
    unsafe { libc::ptrace(req, pid, addr, data) }
}

fn getregs(pid: i32) -> libc::user_regs_struct {
    let mut regs: libc::user_regs_struct = unsafe { std::mem::zeroed() };
    let r = ptrace(libc::PTRACE_GETREGS, pid, 0, &mut regs as *mut _ as usize);
    assert!(r == 0, "PTRACE_GETREGS failed");
    regs
}
fn setregs(pid: i32, regs: &libc::user_regs_struct) {
    let r = ptrace(libc::PTRACE_SETREGS, pid, 0, regs as *const _ as usize);
    assert!(r == 0, "PTRACE_SETREGS failed");
}

fn read_cstr(pid: i32, addr: u64) -> String {
    use std::io::{Read, Seek, SeekFrom};
    let mut out = vec![];
    if let Ok(mut f) = std::fs::File::open(format!("/proc/{}/mem", pid)) {
        if f.seek(SeekFrom::Start(addr)).is_ok() {
            let mut buf = [0u8; 256];
            if let Ok(n) = f.read(&mut buf) {
                for b in &buf[..n] {
                    if *b == 0 {
                        break;
                    }
                    out.push(*b);
                }
            }
        }
    }
    String::from_utf8_lossy(&out).to_string()
}

fn spawn_traced(args: &[String]) -> Tracee {
    let exe = std::env::current_exe().expect("exe");
    let mut cmd = std::process::Command::new(exe);
    cmd.arg("--fs-subject").args(args).stdout(std::process::Stdio::null()).stderr(std::process::Stdio::null()).stdin(std::process::Stdio::null());
    unsafe {
        cmd.pre_exec(|| {
            if libc::ptrace(libc::PTRACE_TRACEME, 0, 0, 0) != 0 {
                return Err(std::io::Error::last_os_error());
            }
            Ok(())
        });
    }
    let child = cmd.spawn().expect("spawn subject");
    let pid = child.id() as i32;
    std::mem::forget(child);
    let mut status = 0;
    let r = unsafe { libc::waitpid(pid, &mut status, 0) };
    assert!(r == pid && libc::WIFSTOPPED(status), "subject did not stop at exec");
    let r = ptrace(libc::PTRACE_SETOPTIONS, pid, 0, (libc::PTRACE_O_TRACESYSGOOD | libc::PTRACE_O_EXITKILL) as usize);
    assert!(r == 0, "PTRACE_SETOPTIONS failed");
    Tracee { is_thread: false, blocked: false, pid, fds: vec![], in_syscall: false, alive: true, exit_code: None, cur: None, pending_write_len: 0 }
}

/// Spawn one subject PROCESS with `n` writer THREADS of the same target; returns the stopped main thread and the
/// n worker threads as tracees, each stopped at its birth. The main thread is left stopped (it would only block
/// in join) and is resumed when the workers are gone.
fn spawn_traced_threads(target: &str, result_prefix: &str, news: &[String]) -> Option<(Tracee, Vec<Tracee>)> {
    let exe = std::env::current_exe().expect("exe");
    let mut cmd = std::process::Command::new(exe);
    cmd.arg("--fs-subject").arg("gentle-threads").arg(target).arg(result_prefix).args(news).stdout(std::process::Stdio::null()).stderr(std::process::Stdio::null()).stdin(std::process::Stdio::null());
    unsafe {
        cmd.pre_exec(|| {
            if libc::ptrace(libc::PTRACE_TRACEME, 0, 0, 0) != 0 {
                return Err(std::io::Error::last_os_error());
            }
            Ok(())
        });
    }
    let child = cmd.spawn().expect("spawn subject");
    let pid = child.id() as i32;
    std::mem::forget(child);
    let mut status = 0;
    let r = unsafe { libc::waitpid(pid, &mut status, libc::__WALL) };
    assert!(r == pid && libc::WIFSTOPPED(status), "subject did not stop at exec");
    let opts = libc::PTRACE_O_TRACESYSGOOD | libc::PTRACE_O_EXITKILL | libc::PTRACE_O_TRACECLONE;
    assert!(ptrace(libc::PTRACE_SETOPTIONS, pid, 0, opts as usize) == 0, "PTRACE_SETOPTIONS failed");
    let mut main = Tracee { is_thread: false, blocked: false, pid, fds: vec![], in_syscall: false, alive: true, exit_code: None, cur: None, pending_write_len: 0 };
    let mut workers = vec![];
    let deadline = std::time::Instant::now() + Duration::from_secs(60);
    while workers.len() < news.len() {
        if std::time::Instant::now() > deadline || ptrace(libc::PTRACE_SYSCALL, pid, 0, 0) != 0 {
            main.kill();
            return None;
        }
        let w = unsafe { libc::waitpid(pid, &mut status, libc::__WALL) };
        if w != pid || !libc::WIFSTOPPED(status) {
            main.kill();
            return None;
        }
        if (status >> 8) == (libc::SIGTRAP | (libc::PTRACE_EVENT_CLONE << 8)) {
            let mut newtid: libc::c_ulong = 0;
            ptrace(libc::PTRACE_GETEVENTMSG, pid, 0, &mut newtid as *mut _ as usize);
            let tid = newtid as i32;
            // the new thread is attached automatically and starts with a stop of its own
            let mut st2 = 0;
            let w2 = unsafe { libc::waitpid(tid, &mut st2, libc::__WALL) };
            if w2 != tid || !libc::WIFSTOPPED(st2) {
                main.kill();
                return None;
            }
            workers.push(Tracee { is_thread: true, blocked: false, pid: tid, fds: vec![], in_syscall: false, alive: true, exit_code: None, cur: None, pending_write_len: 0 });
        }
    }
    Some((main, workers))
}

#[derive(Clone, Debug, PartialEq)]
enum Stop {
    Entry(i64, String),
    Exit(i64, i64),
    Gone,
}

impl Tracee {
    /// Is this syscall one that touches the target directory? Returns a description.
    fn relevant(&mut self, regs: &libc::user_regs_struct, dir: &str) -> Option<String> {
        let nr = regs.orig_rax as i64;
        let path_of = |a: u64| read_cstr(self.pid, a);
        match nr {
            SYS_OPEN | SYS_CREAT | SYS_UNLINK | SYS_CHMOD => {
                let p = path_of(regs.rdi);
                if p.starts_with(dir) {
                    Some(format!("{}({})", sysname(nr), p.replace(dir, "")))
                } else {
                    None
                }
            }
            SYS_OPENAT | SYS_OPENAT2 | SYS_UNLINKAT | SYS_FCHMODAT => {
                let p = path_of(regs.rsi);
                if p.starts_with(dir) {
                    Some(format!("{}({}, flags={:#x})", sysname(nr), p.replace(dir, ""), regs.rdx))
                } else {
                    None
                }
            }
            SYS_RENAME | SYS_LINK => {
                let (a, b) = (path_of(regs.rdi), path_of(regs.rsi));
                if a.starts_with(dir) || b.starts_with(dir) {
                    Some(format!("{}({} -> {})", sysname(nr), a.replace(dir, ""), b.replace(dir, "")))
                } else {
                    None
                }
            }
            SYS_RENAMEAT | SYS_RENAMEAT2 | SYS_LINKAT => {
                let (a, b) = (path_of(regs.rsi), path_of(regs.r10));
                if a.starts_with(dir) || b.starts_with(dir) {
                    Some(format!("{}({} -> {})", sysname(nr), a.replace(dir, ""), b.replace(dir, "")))
                } else {
                    None
                }
            }
            SYS_WRITE | SYS_PWRITE64 | SYS_FTRUNCATE | SYS_FSYNC | SYS_FDATASYNC | SYS_FCHMOD | SYS_CLOSE | SYS_READ => {
                if self.fds.contains(&(regs.rdi as i64)) {
                    Some(format!("{}(fd, {})", sysname(nr), regs.rdx))
                } else {
                    None
                }
            }
            _ => None,
        }
    }

    /// Advance to the next relevant syscall boundary (entry or exit) or to process exit.
    fn advance(&mut self, dir: &str) -> Stop {
        loop {
            if !self.alive {
                return Stop::Gone;
            }
            let r = ptrace(libc::PTRACE_SYSCALL, self.pid, 0, 0);
            if r != 0 {
                self.alive = false;
                return Stop::Gone;
            }
            let mut status = 0;
            let w = if self.is_thread {
                // a thread may block on a lock held by another (stopped) thread: bounded wait
                let t0 = std::time::Instant::now();
                loop {
                    let w = unsafe { libc::waitpid(self.pid, &mut status, libc::__WALL | libc::WNOHANG) };
                    if w != 0 {
                        break w;
                    }
                    if t0.elapsed() > Duration::from_secs(20) {
                        self.blocked = true;
                        self.alive = false;
                        return Stop::Gone;
                    }
                    std::thread::sleep(Duration::from_micros(200));
                }
            } else {
                unsafe { libc::waitpid(self.pid, &mut status, libc::__WALL) }
            };
            if w != self.pid {
                self.alive = false;
                return Stop::Gone;
            }
            if libc::WIFEXITED(status) {
                self.alive = false;
                self.exit_code = Some(libc::WEXITSTATUS(status));
                return Stop::Gone;
            }
            if libc::WIFSIGNALED(status) {
                self.alive = false;
                self.exit_code = Some(-libc::WTERMSIG(status));
                return Stop::Gone;
            }
            if !libc::WIFSTOPPED(status) {
                continue;
            }
            let sig = libc::WSTOPSIG(status);
            if sig != (libc::SIGTRAP | 0x80) {
                // a signal-delivery stop (or the exec trap): swallow, keep going
                continue;
            }
            let regs = getregs(self.pid);
            if !self.in_syscall {
                self.in_syscall = true;
                if let Some(desc) = self.relevant(&regs, dir) {
                    let nr = regs.orig_rax as i64;
                    self.cur = Some((nr, desc.clone()));
                    self.pending_write_len = regs.rdx;
                    return Stop::Entry(nr, desc);
                }
                self.cur = None;
            } else {
                self.in_syscall = false;
                if let Some((nr, _)) = self.cur.clone() {
                    let ret = regs.rax as i64;
                    if matches!(nr, SYS_OPEN | SYS_CREAT | SYS_OPENAT | SYS_OPENAT2) && ret >= 0 {
                        self.fds.push(ret);
                    }
                    if nr == SYS_CLOSE {
                        let fd = regs.rdi as i64;
                        self.fds.retain(|f| *f != fd);
                    }
                    self.cur = None;
                    return Stop::Exit(nr, ret);
                }
            }
        }
    }

    fn kill(&mut self) {
        if self.is_thread {
            self.alive = false;
            return;
        }
        if self.alive {
            unsafe {
                libc::kill(self.pid, libc::SIGKILL);
                let mut status = 0;
                libc::waitpid(self.pid, &mut status, libc::__WALL);
            }
            self.alive = false;
            self.exit_code = Some(-9);
        }
    }

    fn run_to_end(&mut self, dir: &str) {
        while self.alive {
            if self.advance(dir) == Stop::Gone {
                break;
            }
        }
    }
}

#[derive(Clone, Debug)]
enum Fault {
    None,
    /// SIGKILL at the k-th relevant boundary (entries and exits both count)
    CrashAt(usize),
    /// at the k-th relevant boundary, which must be a write entry, shrink the length to `len`; then optionally crash after its exit
    ShortWrite(usize, u64, bool),
    /// make the syscall entered at boundary k fail with errno
    Errno(usize, i32),
}

#[derive(Clone, Debug, PartialEq, Eq)]
enum Prev {
    Absent,
    Same,
    Different,
}

struct ExecResult {
    boundaries: Vec<String>,
    observations: Vec<Option<Vec<u8>>>,
    exit_code: Option<i32>,
    fault_applied: bool,
}

fn observe(path: &str) -> Option<Vec<u8>> {
    std::fs::read(path).ok()
}

const OLD_DIFFERENT: &str = "ff0101\n";
fn new_data(i: usize) -> String {
    // long enough that short writes are visibly partial
    format!("ff02ffff0{}{}\n", i, "80".repeat(40 + i))
}

fn setup_dir(dir: &str, prev: &Prev, new: &str) -> String {
    let _ = std::fs::remove_dir_all(dir);
    std::fs::create_dir_all(dir).expect("mkdir");
    let target = format!("{}/out.hex", dir);
    match prev {
        Prev::Absent => {}
        Prev::Same => std::fs::write(&target, new).expect("seed"),
        Prev::Different => std::fs::write(&target, OLD_DIFFERENT).expect("seed"),
    }
    target
}

fn run_one(dir: &str, prev: &Prev, fault: &Fault) -> ExecResult {
    let new = new_data(1);
    let target = setup_dir(dir, prev, &new);
    let dirp = format!("{}/", dir);
    let mut t = spawn_traced(&["gentle".to_string(), target.clone(), new.clone()]);
    let mut res = ExecResult { boundaries: vec![], observations: vec![], exit_code: None, fault_applied: false };
    let mut k = 0usize;
    let mut crash_after_exit = false;
    let mut errno_pending: Option<i32> = None;
    loop {
        let stop = t.advance(&dirp);
        match &stop {
            Stop::Gone => break,
            Stop::Entry(nr, desc) => {
                res.boundaries.push(format!("enter {}", desc));
                match fault {
                    Fault::CrashAt(c) if *c == k => {
                        t.kill();
                        res.fault_applied = true;
                    }
                    Fault::ShortWrite(c, len, crash) if *c == k && (*nr == SYS_WRITE || *nr == SYS_PWRITE64) => {
                        let mut regs = getregs(t.pid);
                        if *len < regs.rdx {
                            regs.rdx = *len;
                            setregs(t.pid, &regs);
                            res.fault_applied = true;
                            crash_after_exit = *crash;
                        }
                    }
                    Fault::Errno(c, e) if *c == k => {
                        let mut regs = getregs(t.pid);
                        regs.orig_rax = u64::MAX; // skip the call
                        setregs(t.pid, &regs);
                        errno_pending = Some(*e);
                        res.fault_applied = true;
                    }
                    _ => {}
                }
            }
            Stop::Exit(nr, ret) => {
                if let Some(e) = errno_pending.take() {
                    let mut regs = getregs(t.pid);
                    regs.rax = (-(e as i64)) as u64;
                    setregs(t.pid, &regs);
                    res.boundaries.push(format!("exit {} -> injected errno {}", sysname(*nr), e));
                } else {
                    res.boundaries.push(format!("exit {} -> {}", sysname(*nr), ret));
                }
                if let Fault::CrashAt(c) = fault {
                    if *c == k {
                        t.kill();
                        res.fault_applied = true;
                    }
                }
                if crash_after_exit {
                    t.kill();
                    crash_after_exit = false;
                }
            }
        }
        // the controller is the concurrent reader: look at the target after every boundary
        res.observations.push(observe(&target));
        k += 1;
        if !t.alive {
            break;
        }
    }
    t.run_to_end(&dirp);
    res.exit_code = t.exit_code;
    res.observations.push(observe(&target));
    res
}

fn allowed(obs: &Option<Vec<u8>>, prev: &Prev, news: &[String], some_writer_done: bool) -> bool {
    match obs {
        None => *prev == Prev::Absent && !some_writer_done,
        Some(b) => {
            let prev_content: Option<&[u8]> = match prev {
                Prev::Absent => None,
                Prev::Same => Some(news[0].as_bytes()),
                Prev::Different => Some(OLD_DIFFERENT.as_bytes()),
            };
            prev_content == Some(&b[..]) || news.iter().any(|n| n.as_bytes() == &b[..])
        }
    }
}

fn check_single(st: &mut Stats, dir: &str, prev: &Prev, fault: &Fault, counters: &mut (u64, u64)) {
    st.eval();
    let r = run_one(dir, prev, fault);
    counters.0 += r.observations.len() as u64;
    counters.1 += r.boundaries.len() as u64;
    let news = vec![new_data(1)];
    let replay = json!({"kind": "c19-single", "prev": format!("{:?}", prev), "fault": format!("{:?}", fault), "boundaries": r.boundaries});
    let fclass = match fault {
        Fault::None => "no-fault",
        Fault::CrashAt(_) => "crash",
        Fault::ShortWrite(_, _, false) => "short-write",
        Fault::ShortWrite(_, _, true) => "short-write+crash",
        Fault::Errno(_, _) => "errno",
    };
    if !matches!(fault, Fault::None) && !r.fault_applied {
        st.outcome(&format!("{}:point-not-reached", fclass));
        return;
    }
    st.outcome(&format!("{}:{:?}:exit={:?}", fclass, prev, r.exit_code));
    let completed = r.exit_code == Some(0);
    for (i, o) in r.observations.iter().enumerate() {
        let last = i + 1 == r.observations.len();
        if !allowed(o, prev, &news, last && completed) {
            st.violation(
                &format!("partial-or-missing-target/{}/{:?}", fclass, prev),
                format!("previous state {:?}, fault {:?}: after boundary {} ({}) the target holds {:?}, which is neither the previous nor the new contents; syscalls: {:?}", prev, fault, i, r.boundaries.get(i).cloned().unwrap_or_else(|| "end".into()), o.as_ref().map(|b| String::from_utf8_lossy(b).to_string()), r.boundaries),
                i,
                replay.clone(),
            );
            return;
        }
    }
    // outcome clauses
    let final_obs = r.observations.last().cloned().flatten();
    match fault {
        Fault::None => {
            if !completed || final_obs.as_deref() != Some(news[0].as_bytes()) {
                st.violation(&format!("plain-write-fails/{:?}", prev), format!("without any fault the routine exits with {:?} and the target holds {:?}", r.exit_code, final_obs.map(|b| String::from_utf8_lossy(&b).to_string())), 0, replay.clone());
                return;
            }
        }
        Fault::Errno(_, _) | Fault::ShortWrite(_, _, false) => {
            if *prev == Prev::Same && r.exit_code != Some(0) {
                st.violation("equal-contents-but-reports-failure", format!("new contents equal the old, a syscall was made to fail ({:?}), and the routine reports failure (exit {:?}); syscalls: {:?}", fault, r.exit_code, r.boundaries), 0, replay.clone());
                return;
            }
            if r.exit_code == Some(1) {
                // reported failure: the target must be unchanged
                let unchanged = match prev {
                    Prev::Absent => final_obs.is_none(),
                    Prev::Same => final_obs.as_deref() == Some(news[0].as_bytes()),
                    Prev::Different => final_obs.as_deref() == Some(OLD_DIFFERENT.as_bytes()),
                };
                if !unchanged {
                    st.violation(&format!("reports-failure-but-target-changed/{:?}", prev), format!("fault {:?}: the routine reports failure but the target now holds {:?}", fault, final_obs.map(|b| String::from_utf8_lossy(&b).to_string())), 0, replay.clone());
                    return;
                }
            }
        }
        _ => {}
    }
    st.nontrivial(&(format!("{:?}", prev), format!("{:?}", fault)));
    if matches!(fault, Fault::CrashAt(3) | Fault::Errno(2, _) | Fault::None) {
        st.sample(json!({"previous": format!("{:?}", prev), "fault": format!("{:?}", fault), "syscall_boundaries": r.boundaries, "exit": r.exit_code, "observations": r.observations.iter().map(|o| o.as_ref().map(|b| b.len())).collect::<Vec<_>>()}));
    }
}

// ---- interleavings of several writers

struct MultiResult {
    /// set when the run could not be driven (a thread blocked on a stopped one, ...): never a verdict
    machinery: Option<String>,
    schedule_taken: Vec<usize>,
    enabled_at: Vec<Vec<usize>>,
    running_at: Vec<Option<usize>>,
    bad: Option<String>,
    steps: u64,
}

/// Run `n` writers under the given schedule prefix; after the prefix the default policy keeps the
/// running writer if still enabled, else the lowest enabled id. One step = one relevant syscall
/// (from its entry stop through its exit to the next entry stop or process end).
fn run_multi(dir: &str, prev: &Prev, n: usize, prefix: &[usize], threads: bool) -> MultiResult {
    let news: Vec<String> = (0..n).map(|i| new_data(i + 1)).collect();
    let target = setup_dir(dir, prev, &news[0]);
    let dirp = format!("{}/", dir);
    let result_prefix = format!("{}.result", dir);
    for i in 0..n {
        let _ = std::fs::remove_file(format!("{}{}", result_prefix, i));
    }
    let mut main_thread: Option<Tracee> = None;
    let mut ts: Vec<Tracee> = if threads {
        match spawn_traced_threads(&target, &result_prefix, &news) {
            Some((m, w)) => {
                main_thread = Some(m);
                w
            }
            None => return MultiResult { schedule_taken: vec![], enabled_at: vec![], running_at: vec![], bad: None, steps: 0, machinery: Some("could not bring the threaded subject to its worker threads".to_string()) },
        }
    } else {
        (0..n).map(|i| spawn_traced(&["gentle".to_string(), target.clone(), news[i].clone()])).collect()
    };
    // bring every writer to its first relevant syscall entry
    for t in ts.iter_mut() {
        loop {
            match t.advance(&dirp) {
                Stop::Entry(_, _) | Stop::Gone => break,
                Stop::Exit(_, _) => {}
            }
        }
    }
    let mut res = MultiResult { schedule_taken: vec![], enabled_at: vec![], running_at: vec![], bad: None, steps: 0, machinery: None };
    let mut running: Option<usize> = None;
    let mut done_ok = vec![false; n];
    loop {
        let enabled: Vec<usize> = (0..n).filter(|i| ts[*i].alive).collect();
        if enabled.is_empty() {
            break;
        }
        let step = res.schedule_taken.len();
        let choice = if step < prefix.len() {
            assert!(enabled.contains(&prefix[step]), "schedule prefix names a writer that is not enabled (nondeterminism in the subject?)");
            prefix[step]
        } else if let Some(r) = running.filter(|r| enabled.contains(r)) {
            r
        } else {
            enabled[0]
        };
        res.enabled_at.push(enabled.clone());
        res.running_at.push(running.filter(|r| enabled.contains(r)));
        res.schedule_taken.push(choice);
        running = Some(choice);
        // one step of the chosen writer: through the current syscall's exit to the next entry (or the end)
        let t = &mut ts[choice];
        loop {
            match t.advance(&dirp) {
                Stop::Exit(_, _) => {}
                Stop::Entry(_, _) => break,
                Stop::Gone => {
                    done_ok[choice] = if threads { std::fs::read_to_string(format!("{}{}", result_prefix, choice)).map(|r| r == "ok").unwrap_or(false) } else { t.exit_code == Some(0) };
                    break;
                }
            }
        }
        if ts[choice].blocked {
            res.machinery = Some(format!("worker thread {} did not reach its next stop (blocked on a stopped thread) at step {}", choice, step));
            break;
        }
        res.steps += 1;
        let o = observe(&target);
        if !allowed(&o, prev, &news, done_ok.iter().any(|d| *d)) && res.bad.is_none() {
            res.bad = Some(format!("after step {} (writer {}) the target holds {:?}", step, choice, o.map(|b| String::from_utf8_lossy(&b).chars().take(60).collect::<String>())));
        }
    }
    if res.machinery.is_some() {
        if let Some(m) = main_thread.as_mut() {
            m.kill();
        }
        return res;
    }
    // all writers finished: the target must hold one writer's complete data
    let o = observe(&target);
    let final_ok = matches!(&o, Some(b) if news.iter().any(|nw| nw.as_bytes() == &b[..]));
    if !final_ok && res.bad.is_none() {
        res.bad = Some(format!("after all writers finished the target holds {:?}", o.map(|b| String::from_utf8_lossy(&b).chars().take(60).collect::<String>())));
    }
    for t in ts.iter_mut() {
        t.kill();
    }
    if let Some(m) = main_thread.as_mut() {
        m.kill();
    }
    res
}

#[allow(clippy::too_many_arguments)]
fn explore_schedules(st: &mut Stats, dir: &str, prev: &Prev, n: usize, bound: usize, counters: &mut (u64, u64), max_execs: usize, threads: bool) -> bool {
    // iterative context bounding by re-execution
    let mut stack: Vec<(Vec<usize>, usize)> = vec![(vec![], 0)]; // (prefix, preemptions used in prefix)
    let mut execs = 0usize;
    let mut outcomes: std::collections::BTreeSet<Vec<usize>> = Default::default();
    while let Some((prefix, used)) = stack.pop() {
        if execs >= max_execs {
            return false;
        }
        execs += 1;
        st.eval();
        let r = run_multi(dir, prev, n, &prefix, threads);
        if let Some(m) = &r.machinery {
            st.count(&format!("schedule-not-drivable(machinery, no verdict)[{}]", m.chars().take(60).collect::<String>()), 1);
            continue;
        }
        counters.0 += r.steps + 1;
        counters.1 += r.steps;
        outcomes.insert(r.schedule_taken.clone());
        if let Some(b) = &r.bad {
            let kind = if threads { "threads-of-one-process" } else { "processes" };
            st.violation(&format!("interleaving/{}-writer-{}/{:?}", n, kind, prev), format!("{} writers ({}), previous state {:?}, schedule {:?}: {}", n, kind, prev, r.schedule_taken, b), r.schedule_taken.len(), json!({"kind": "c19-multi", "writers": n, "writer_kind": kind, "prev": format!("{:?}", prev), "schedule": r.schedule_taken}));
        } else {
            st.nontrivial(&(n, threads, format!("{:?}", prev), r.schedule_taken.clone()));
            if prefix.len() == 2 {
                st.sample(json!({"writers": n, "previous": format!("{:?}", prev), "schedule": r.schedule_taken, "steps": r.steps}));
            }
        }
        // branch on later points
        for i in prefix.len()..r.schedule_taken.len() {
            let mut cost = used;
            // preemptions in the default-continued part are zero by construction
            let running_enabled = r.running_at[i].is_some();
            for alt in &r.enabled_at[i] {
                if *alt == r.schedule_taken[i] {
                    continue;
                }
                let c = cost + if running_enabled { 1 } else { 0 };
                if c > bound {
                    continue;
                }
                let mut p = r.schedule_taken[..i].to_vec();
                p.push(*alt);
                stack.push((p, c));
            }
            let _ = &mut cost;
        }
    }
    st.count(&format!("schedules[{}-writer-{},{:?},bound{}]", n, if threads { "threads" } else { "processes" }, prev, bound), execs as u64);
    st.count("distinct-complete-schedules", outcomes.len() as u64);
    true
}

pub fn c19(thorough: bool, replay: Option<String>) -> i32 {
    let mut rep = Report::new("C19", if thorough { "thorough" } else { "quick" }, "fault_enumeration");
    rep.rule = "the real routine (util::gentle_overwrite, as called by compile_clvm) runs in a subject process under a ptrace controller that stops it at the entry and exit of every file-system syscall touching the target directory. Enumerated exhaustively: (i) SIGKILL at every syscall boundary x previous state of the target {absent, same contents, different contents}; (ii) at every write, every short-write split {1, n/2, n-1}, with and without a crash right after; (iii) at every syscall, each errno of {EACCES, EROFS, ENOSPC, EIO} injected (the sandbox runs as root, so a read-only target is modelled by failing calls); (iv) 2 (thorough 3) concurrent writers of the same path - separate processes, and threads of one process sharing its process id - advanced one syscall at a time, all schedules with <= 2 preemptions. \
        After EVERY boundary / step the controller itself opens and reads the target (the concurrent reader): it must be absent only if it was absent before and no writer has completed, and otherwise hold exactly the previous or one writer's complete new contents. With equal contents the call must succeed even when a syscall fails; a reported failure must leave the target unchanged. non-trivial = distinct (previous state, fault / schedule) executions that reached their fault point and satisfied the invariant at every observation"
        .to_string();
    rep.assumptions = vec![
        "crash = process death at a syscall boundary (SIGKILL / OOM kill); power loss with unsynced page cache is outside the property".to_string(),
        "scheduling points are the file-system syscalls, the only points at which another process or thread can observe or interfere through the file system; writers are separate processes, and also threads of one process (same process id), each a ptrace tracee of its own".to_string(),
        "stray temporary files left in the directory are allowed".to_string(),
    ];
    if replay.is_some() {
        let st = Stats::new();
        rep.add_sub("replay", "re-run the check; replay files carry previous state, fault / schedule and the syscall list", 0, false, false, st);
        return rep.finish();
    }
    let base = format!("/tmp/vmc-c19-{}", std::process::id());
    let cap = Some(Duration::from_secs(if thorough { 3000 } else { 50 }));
    // discover the boundaries of a plain run per previous state
    let prevs = [Prev::Absent, Prev::Same, Prev::Different];
    let mut plans: Vec<(Prev, Fault)> = vec![];
    for p in &prevs {
        let r = run_one(&format!("{}/probe", base), p, &Fault::None);
        let nb = r.boundaries.len();
        plans.push((p.clone(), Fault::None));
        for k in 0..nb {
            plans.push((p.clone(), Fault::CrashAt(k)));
            if r.boundaries[k].starts_with("enter ") {
                for e in [libc::EACCES, libc::EROFS, libc::ENOSPC, libc::EIO] {
                    plans.push((p.clone(), Fault::Errno(k, e)));
                }
                if r.boundaries[k].starts_with("enter write") || r.boundaries[k].starts_with("enter pwrite") {
                    let n = new_data(1).len() as u64;
                    for split in [1, n / 2, n - 1] {
                        plans.push((p.clone(), Fault::ShortWrite(k, split, false)));
                        plans.push((p.clone(), Fault::ShortWrite(k, split, true)));
                    }
                }
            }
        }
        eprintln!("[C19] plain run, previous {:?}: {:?}", p, r.boundaries);
    }
    let n = plans.len() as u64;
    let (st, capped) = par_range(n, 2, cap, || (0u64, 0u64), |c, st, i| {
        let before = *c;
        let (p, f) = &plans[i as usize];
        let dir = format!("{}/s{:?}", base, std::thread::current().id()).replace(['(', ')'], "");
        check_single(st, &dir, p, f, c);
        st.count("observations", c.0 - before.0);
        st.count("boundaries", c.1 - before.1);
    });
    rep.add_sub("single-writer-faults", &format!("{} executions: every syscall boundary x {{crash, 4 errnos, 3 short-write splits with/without crash}} x 3 previous states", n), n, true, capped, st);

    // interleavings
    // (writers, previous state, preemption bound, writers are threads of ONE process - same process id)
    let mut combos: Vec<(usize, Prev, usize, bool)> = if thorough { vec![(2, Prev::Absent, 2, false), (2, Prev::Different, 2, false), (2, Prev::Same, 2, false)] } else { vec![(2, Prev::Absent, 2, false), (2, Prev::Different, 1, false), (2, Prev::Same, 1, false)] };
    combos.push((2, Prev::Absent, if thorough { 2 } else { 1 }, true));
    combos.push((2, Prev::Different, if thorough { 2 } else { 1 }, true));
    if thorough {
        combos.push((3, Prev::Absent, 2, false));
        combos.push((3, Prev::Different, 2, false));
        combos.push((2, Prev::Absent, 4, false));
        combos.push((2, Prev::Same, 2, true));
        combos.push((3, Prev::Different, 1, true));
    }
    let nc = combos.len() as u64;
    let max_execs = if thorough { 20000 } else { 400 };
    let (mut st, _capped) = par_range(nc, 1, cap, || (0u64, 0u64), |c, st, i| {
        let (nw, p, bound, threads) = &combos[i as usize];
        let dir = format!("{}/m{:?}", base, std::thread::current().id()).replace(['(', ')'], "");
        let complete = explore_schedules(st, &dir, p, *nw, *bound, c, max_execs, *threads);
        if !complete {
            st.count("schedule-exploration-capped", 1);
        }
    });
    let capped2 = st.counters.get("schedule-exploration-capped").copied().unwrap_or(0) > 0;
    st.max_samples = 3;
    rep.add_sub("writer-interleavings", &format!("{:?} (writers, previous state, preemption bound, writers are threads of one process): all schedules within the bound, explored by re-execution; cap {} executions per combination", combos.iter().map(|c| (c.0, format!("{:?}", c.1), c.2, c.3)).collect::<Vec<_>>(), max_execs), nc, true, capped2, st);
    let _ = std::fs::remove_dir_all(&base);
    rep.finish()
}
