//! Consensus oracle: clvmr called directly (never through repository code).
use crate::tree::T;
use clvmr::allocator::{Allocator, NodePtr};
use clvmr::chia_dialect::{ChiaDialect, ENABLE_KECCAK_OPS_OUTSIDE_GUARD, NO_UNKNOWN_OPS};
use clvmr::error::EvalErr;
use clvmr::run_program::run_program;

pub const MAX_COST: u64 = 200_000_000;

#[derive(Clone, Debug, PartialEq, Eq)]
pub enum Out {
    Val(T),
    Err(String),
    /// cost / resource limit: outside every comparison
    Limit,
}

impl Out {
    pub fn kind(&self) -> &'static str {
        match self {
            Out::Val(_) => "value",
            Out::Err(_) => "error",
            Out::Limit => "limit",
        }
    }
    pub fn val(&self) -> Option<&T> {
        if let Out::Val(v) = self {
            Some(v)
        } else {
            None
        }
    }
    pub fn short(&self) -> String {
        match self {
            Out::Val(v) => format!("value {}", v.short()),
            Out::Err(e) => format!("error {}", e),
            Out::Limit => "limit".to_string(),
        }
    }
}

pub fn consensus_node(a: &mut Allocator, prog: NodePtr, env: NodePtr, max_cost: u64) -> Result<NodePtr, EvalErr> {
    let d = ChiaDialect::new(NO_UNKNOWN_OPS | ENABLE_KECCAK_OPS_OUTSIDE_GUARD);
    run_program(a, &d, prog, env, max_cost).map(|r| r.1)
}

pub fn consensus(prog: &T, env: &T) -> Out {
    consensus_cost(prog, env, MAX_COST)
}

pub fn consensus_cost(prog: &T, env: &T, max_cost: u64) -> Out {
    let mut a = Allocator::new();
    let p = prog.to_node(&mut a);
    let e = env.to_node(&mut a);
    match consensus_node(&mut a, p, e, max_cost) {
        Ok(n) => Out::Val(T::from_node(&a, n)),
        Err(EvalErr::CostExceeded) | Err(EvalErr::OutOfMemory) | Err(EvalErr::TooManyPairs) | Err(EvalErr::TooManyAtoms) => Out::Limit,
        Err(e) => {
            let s = format!("{}", e);
            if s.contains("Stack Limit") {
                Out::Limit
            } else {
                Out::Err(s)
            }
        }
    }
}

/// (q . v)
pub fn quote(v: T) -> T {
    T::p(T::a(&[1]), v)
}

/// A reusable consensus evaluation context: a set of environments is built once in an
/// allocator, and every evaluation restores the allocator to that checkpoint afterwards.
pub struct Ctx {
    pub a: Allocator,
    pub envs: Vec<NodePtr>,
    cp: clvmr::allocator::Checkpoint,
}

pub enum NOut {
    Val(NodePtr),
    Err(String),
    Limit,
}

impl Ctx {
    pub fn new(envs: &[T]) -> Ctx {
        let mut a = Allocator::new();
        let envs: Vec<NodePtr> = envs.iter().map(|e| e.to_node(&mut a)).collect();
        let cp = a.checkpoint();
        Ctx { a, envs, cp }
    }
    pub fn reset(&mut self) {
        self.a.restore_checkpoint(&self.cp);
    }
    pub fn run_node(&mut self, prog: NodePtr, env: NodePtr) -> NOut {
        match consensus_node(&mut self.a, prog, env, MAX_COST) {
            Ok(n) => NOut::Val(n),
            Err(EvalErr::CostExceeded) | Err(EvalErr::OutOfMemory) | Err(EvalErr::TooManyPairs) | Err(EvalErr::TooManyAtoms) => NOut::Limit,
            Err(e) => {
                let s = format!("{}", e);
                if s.contains("Stack Limit") {
                    NOut::Limit
                } else {
                    NOut::Err(s)
                }
            }
        }
    }
    pub fn node_eq(&self, x: NodePtr, y: NodePtr) -> bool {
        let mut stack = vec![(x, y)];
        while let Some((p, q)) = stack.pop() {
            if p == q {
                continue;
            }
            match (self.a.sexp(p), self.a.sexp(q)) {
                (clvmr::allocator::SExp::Atom, clvmr::allocator::SExp::Atom) => {
                    if self.a.atom(p).as_ref() != self.a.atom(q).as_ref() {
                        return false;
                    }
                }
                (clvmr::allocator::SExp::Pair(a1, b1), clvmr::allocator::SExp::Pair(a2, b2)) => {
                    stack.push((a1, a2));
                    stack.push((b1, b2));
                }
                _ => return false,
            }
        }
        true
    }
    pub fn t(&self, n: NodePtr) -> T {
        T::from_node(&self.a, n)
    }
}
