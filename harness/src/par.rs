//! Deterministic sharded execution of an indexed finite space over worker threads.
use crate::report::Stats;
use std::sync::atomic::{AtomicBool, AtomicU64, Ordering};
use std::time::{Duration, Instant};

pub fn nthreads() -> usize {
    std::env::var("VERIF_THREADS")
        .ok()
        .and_then(|s| s.parse().ok())
        .unwrap_or_else(|| std::thread::available_parallelism().map(|n| n.get()).unwrap_or(8).min(16))
}

pub const BIG_STACK: usize = 512 * 1024 * 1024;

/// Runs `f(state, stats, i)` for every i in 0..n (all of them unless the wall
/// cap fires; returns `capped = true` in that case). The order of indices
/// within a thread is ascending; chunks are handed out dynamically.
pub fn par_range<S, I, F>(n: u64, chunk: u64, cap: Option<Duration>, init: I, f: F) -> (Stats, bool)
where
    I: Fn() -> S + Sync,
    F: Fn(&mut S, &mut Stats, u64) + Sync,
{
    let next = AtomicU64::new(0);
    let capped = AtomicBool::new(false);
    let start = Instant::now();
    let nt = nthreads().max(1);
    let mut total = Stats::new();
    let results: Vec<Stats> = std::thread::scope(|sc| {
        let mut hs = vec![];
        for _ in 0..nt {
            let h = std::thread::Builder::new()
                .stack_size(BIG_STACK)
                .spawn_scoped(sc, || {
                    let mut st = Stats::new();
                    let mut state = init();
                    loop {
                        if let Some(c) = cap {
                            if start.elapsed() > c {
                                capped.store(true, Ordering::SeqCst);
                                break;
                            }
                        }
                        let lo = next.fetch_add(chunk, Ordering::SeqCst);
                        if lo >= n {
                            break;
                        }
                        let hi = (lo + chunk).min(n);
                        for i in lo..hi {
                            f(&mut state, &mut st, i);
                        }
                    }
                    st
                })
                .expect("spawn");
            hs.push(h);
        }
        hs.into_iter().map(|h| h.join().expect("worker thread died")).collect()
    });
    for r in results {
        total.merge(r);
    }
    // a worker that notices the cap after every index was handed out did not skip anything
    let was_capped = capped.load(Ordering::SeqCst) && next.load(Ordering::SeqCst) < n;
    (total, was_capped)
}

/// Run a closure on a thread with a large stack and return its result.
pub fn with_big_stack<R: Send, F: FnOnce() -> R + Send>(f: F) -> R {
    std::thread::scope(|sc| {
        std::thread::Builder::new()
            .stack_size(BIG_STACK)
            .spawn_scoped(sc, f)
            .expect("spawn")
            .join()
            .expect("big-stack thread died")
    })
}

thread_local! {
    pub static QUIET: std::cell::Cell<u32> = const { std::cell::Cell::new(0) };
    pub static LAST_PANIC_SITE: std::cell::RefCell<String> = const { std::cell::RefCell::new(String::new()) };
}

pub fn install_panic_hook() {
    let default = std::panic::take_hook();
    std::panic::set_hook(Box::new(move |info| {
        let site = info.location().map(|l| {
            let f = l.file();
            // keep the path relative to the repository so the site is stable
            let root = format!("{}/", crate::subject::repo_root());
            let f = f.strip_prefix(root.as_str()).unwrap_or(f);
            format!("{}:{}", f, l.line())
        });
        LAST_PANIC_SITE.with(|s| *s.borrow_mut() = site.unwrap_or_else(|| "?".to_string()));
        if QUIET.with(|q| q.get()) == 0 {
            default(info);
        }
    }));
}

pub fn catch<R, F: FnOnce() -> R + std::panic::UnwindSafe>(f: F) -> Result<R, String> {
    QUIET.with(|q| q.set(q.get() + 1));
    let r = std::panic::catch_unwind(f);
    QUIET.with(|q| q.set(q.get() - 1));
    r.map_err(|e| {
        let msg = if let Some(s) = e.downcast_ref::<&str>() {
            s.to_string()
        } else if let Some(s) = e.downcast_ref::<String>() {
            s.clone()
        } else {
            "panic".to_string()
        };
        let site = LAST_PANIC_SITE.with(|s| s.borrow().clone());
        format!("{} @ {}", msg, site)
    })
}

// ---------------------------------------------------------------------------
// Process-isolated sharding: aborts, stack overflows and hangs of the subject
// kill a worker process, never the engine. A dead worker's range is bisected
// down to the single responsible case.

use std::sync::{Arc, Mutex};

pub struct WorkerArgs {
    pub sub: String,
    pub lo: u64,
    pub hi: u64,
}

pub fn worker_args() -> Option<WorkerArgs> {
    let a: Vec<String> = std::env::args().collect();
    let i = a.iter().position(|x| x == "--worker")?;
    Some(WorkerArgs { sub: a[i + 1].clone(), lo: a[i + 2].parse().ok()?, hi: a[i + 3].parse().ok()? })
}

/// Child side: run cases lo..hi sequentially on a big-stack thread under a watchdog.
/// Prints one JSON line {"stats":…, "hang": idx|null, "done_upto": idx} and exits.
pub fn run_worker<F>(lo: u64, hi: u64, per_case_ms: u64, f: F) -> !
where
    F: Fn(&mut Stats, u64) + Send + Sync + 'static,
{
    let shared = Arc::new(Mutex::new(Stats::new()));
    let cur = Arc::new(AtomicU64::new(lo));
    let started = Arc::new(AtomicU64::new(now_ms()));
    let started_cpu = Arc::new(AtomicU64::new(cpu_ms()));
    let done = Arc::new(AtomicBool::new(false));
    {
        let (shared, cur, started, done, started_cpu) = (shared.clone(), cur.clone(), started.clone(), done.clone(), started_cpu.clone());
        std::thread::Builder::new()
            .stack_size(BIG_STACK)
            .spawn(move || {
                for i in lo..hi {
                    cur.store(i, Ordering::SeqCst);
                    started_cpu.store(cpu_ms(), Ordering::SeqCst);
                    started.store(now_ms(), Ordering::SeqCst);
                    let mut local = Stats::new();
                    f(&mut local, i);
                    shared.lock().unwrap().merge(local);
                }
                cur.store(hi, Ordering::SeqCst);
                done.store(true, Ordering::SeqCst);
            })
            .expect("spawn worker thread");
    }
    loop {
        std::thread::sleep(Duration::from_millis(20));
        if done.load(Ordering::SeqCst) {
            let st = shared.lock().unwrap().clone();
            println!("{}", serde_json::json!({"stats": st.to_json(), "hang": serde_json::Value::Null, "done_upto": hi}));
            std::process::exit(0);
        }
        // The limit is on CPU time consumed by this worker process since the case started, so that a loaded
        // machine (where a case may get a small share of a core) is never mistaken for a hang; a wall-clock
        // backstop of 30x the limit covers a subject that blocks without using the CPU.
        let s0 = started.load(Ordering::SeqCst);
        let c0 = started_cpu.load(Ordering::SeqCst);
        // re-read `started` to make sure both values belong to the same case
        if s0 != started.load(Ordering::SeqCst) {
            continue;
        }
        if cpu_ms().saturating_sub(c0) > per_case_ms || now_ms().saturating_sub(s0) > per_case_ms.saturating_mul(30) {
            let idx = cur.load(Ordering::SeqCst);
            let st = shared.lock().unwrap().clone();
            println!("{}", serde_json::json!({"stats": st.to_json(), "hang": idx, "done_upto": idx}));
            std::process::exit(3);
        }
    }
}

/// CPU time (user + system) consumed so far by this process, in milliseconds.
pub fn cpu_ms() -> u64 {
    let mut ts = libc::timespec { tv_sec: 0, tv_nsec: 0 };
    // SAFETY: plain syscall writing into a local timespec
    unsafe {
        libc::clock_gettime(libc::CLOCK_PROCESS_CPUTIME_ID, &mut ts);
    }
    (ts.tv_sec as u64) * 1000 + (ts.tv_nsec as u64) / 1_000_000
}

/// CPU time (user + system) consumed so far by another process, in milliseconds (from /proc/<pid>/stat).
pub fn proc_cpu_ms(pid: u32) -> Option<u64> {
    let s = std::fs::read_to_string(format!("/proc/{}/stat", pid)).ok()?;
    let rest = &s[s.rfind(')')? + 1..];
    let f: Vec<&str> = rest.split_whitespace().collect();
    // after the command name: state is f[0]; utime and stime are fields 14 and 15 of the line, i.e. f[11], f[12]
    let ticks: u64 = f.get(11)?.parse::<u64>().ok()? + f.get(12)?.parse::<u64>().ok()?;
    // SAFETY: sysconf has no preconditions
    let hz = unsafe { libc::sysconf(libc::_SC_CLK_TCK) }.max(1) as u64;
    Some(ticks * 1000 / hz)
}

fn now_ms() -> u64 {
    std::time::SystemTime::now().duration_since(std::time::UNIX_EPOCH).map(|d| d.as_millis() as u64).unwrap_or(0)
}

pub enum Death {
    Hang(u64),
    Crash(u64, String),
}

/// true if running case `i` alone in a fresh worker process dies or hangs again (verdict discipline: a
/// worker death is only reported when the single case reproduces it)
pub fn death_reproduces(id: &str, tier: &str, sub: &str, i: u64) -> bool {
    let (res, _) = spawn_worker(id, tier, sub, i, i + 1);
    match res {
        Some(v) => v["hang"].as_u64().is_some(),
        None => true,
    }
}

fn spawn_worker(id: &str, tier: &str, sub: &str, lo: u64, hi: u64) -> (Option<serde_json::Value>, String) {
    let exe = std::env::current_exe().expect("current exe");
    let out = std::process::Command::new(exe)
        .args([id, "--tier", tier, "--worker", sub, &lo.to_string(), &hi.to_string()])
        .stdin(std::process::Stdio::null())
        .stderr(std::process::Stdio::piped())
        .output()
        .expect("spawn worker process");
    let stdout = String::from_utf8_lossy(&out.stdout);
    let parsed = stdout.lines().rev().find_map(|l| serde_json::from_str::<serde_json::Value>(l).ok().filter(|v| v.get("stats").is_some()));
    let status = format!("{:?} {}", out.status, String::from_utf8_lossy(&out.stderr).lines().rev().take(3).collect::<Vec<_>>().join(" | "));
    (parsed, status)
}

/// Parent side. `on_death` is called with the single responsible case.
pub fn par_range_proc(id: &str, tier: &str, sub: &str, n: u64, chunk: u64, cap: Option<Duration>, deaths: &mut Vec<Death>) -> (Stats, bool) {
    let next = AtomicU64::new(0);
    let capped = AtomicBool::new(false);
    let start = Instant::now();
    let nt = nthreads().max(1);
    let all_deaths: Mutex<Vec<Death>> = Mutex::new(vec![]);
    let total = Mutex::new(Stats::new());
    std::thread::scope(|sc| {
        for _ in 0..nt {
            sc.spawn(|| loop {
                if let Some(c) = cap {
                    if start.elapsed() > c {
                        capped.store(true, Ordering::SeqCst);
                        break;
                    }
                }
                let lo = next.fetch_add(chunk, Ordering::SeqCst);
                if lo >= n {
                    break;
                }
                let hi = (lo + chunk).min(n);
                // work list of ranges still to do (bisecting on crashes)
                let mut todo = vec![(lo, hi)];
                while let Some((a, b)) = todo.pop() {
                    if a >= b {
                        continue;
                    }
                    let (res, status) = spawn_worker(id, tier, sub, a, b);
                    match res {
                        Some(v) => {
                            total.lock().unwrap().merge(Stats::from_json(&v["stats"]));
                            if let Some(h) = v["hang"].as_u64() {
                                all_deaths.lock().unwrap().push(Death::Hang(h));
                                todo.push((h + 1, b));
                            }
                        }
                        None => {
                            if b - a == 1 {
                                all_deaths.lock().unwrap().push(Death::Crash(a, status));
                            } else {
                                let mid = a + (b - a) / 2;
                                todo.push((mid, b));
                                todo.push((a, mid));
                            }
                        }
                    }
                }
            });
        }
    });
    deaths.extend(all_deaths.into_inner().unwrap());
    let was_capped = capped.load(Ordering::SeqCst) && next.load(Ordering::SeqCst) < n;
    (total.into_inner().unwrap(), was_capped)
}
