//! Deterministic sharded execution of an indexed finite space over worker threads.
use crate::report::Stats;
use std::sync::atomic::{AtomicBool, AtomicU64, Ordering};
use std::time::{Duration, Instant};

pub fn nthreads() -> usize {
    std::env::var("VERIF_THREADS")
        .ok()
        .and_then(|s| s.parse().ok())
        .unwrap_or_else(|| std::thread::available_parallelism().map(|n| n.get()).unwrap_or(8).min(16))
}

pub const BIG_STACK: usize = 512 * 1024 * 1024;

/// Runs `f(state, stats, i)` for every i in 0..n (all of them unless the wall
/// cap fires; returns `capped = true` in that case). The order of indices
/// within a thread is ascending; chunks are handed out dynamically.
pub fn par_range<S, I, F>(n: u64, chunk: u64, cap: Option<Duration>, init: I, f: F) -> (Stats, bool)
where
    I: Fn() -> S + Sync,
    F: Fn(&mut S, &mut Stats, u64) + Sync,
{
    let next = AtomicU64::new(0);
    let capped = AtomicBool::new(false);
    let start = Instant::now();
    let nt = nthreads().max(1);
    let mut total = Stats::new();
    let results: Vec<Stats> = std::thread::scope(|sc| {
        let mut hs = vec![];
        for _ in 0..nt {
            let h = std::thread::Builder::new()
                .stack_size(BIG_STACK)
                .spawn_scoped(sc, || {
                    let mut st = Stats::new();
                    let mut state = init();
                    loop {
                        if let Some(c) = cap {
                            if start.elapsed() > c {
                                capped.store(true, Ordering::SeqCst);
                                break;
                            }
                        }
                        let lo = next.fetch_add(chunk, Ordering::SeqCst);
                        if lo >= n {
                            break;
                        }
                        let hi = (lo + chunk).min(n);
                        for i in lo..hi {
                            f(&mut state, &mut st, i);
                        }
                    }
                    st
                })
                .expect("spawn");
            hs.push(h);
        }
        hs.into_iter().map(|h| h.join().expect("worker thread died")).collect()
    });
    for r in results {
        total.merge(r);
    }
    // a worker that notices the cap after every index was handed out did not skip anything
    let was_capped = capped.load(Ordering::SeqCst) && next.load(Ordering::SeqCst) < n;
    (total, was_capped)
}

/// Run a closure on a thread with a large stack and return its result.
pub fn with_big_stack<R: Send, F: FnOnce() -> R + Send>(f: F) -> R {
    std::thread::scope(|sc| {
        std::thread::Builder::new()
            .stack_size(BIG_STACK)
            .spawn_scoped(sc, f)
            .expect("spawn")
            .join()
            .expect("big-stack thread died")
    })
}

thread_local! { pub static QUIET: std::cell::Cell<u32> = const { std::cell::Cell::new(0) }; }

pub fn install_panic_hook() {
    let default = std::panic::take_hook();
    std::panic::set_hook(Box::new(move |info| {
        if QUIET.with(|q| q.get()) == 0 {
            default(info);
        }
    }));
}

pub fn catch<R, F: FnOnce() -> R + std::panic::UnwindSafe>(f: F) -> Result<R, String> {
    QUIET.with(|q| q.set(q.get() + 1));
    let r = std::panic::catch_unwind(f);
    QUIET.with(|q| q.set(q.get() - 1));
    r.map_err(|e| {
        if let Some(s) = e.downcast_ref::<&str>() {
            s.to_string()
        } else if let Some(s) = e.downcast_ref::<String>() {
            s.clone()
        } else {
            "panic".to_string()
        }
    })
}
