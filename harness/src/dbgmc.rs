//! C12 — explicit-state exploration of the debugger (`CldbRun::step` over `run_step`).
//! Every state visited is a state of the real implementation; invariants are
//! evaluated in every state and on every emitted row.
use crate::clvmmc::{c06_sig_pub, ops_core, t_from_hex};
use crate::oracle::{consensus, quote, Out};
use crate::par::{catch, par_range};
use crate::report::{Report, Stats};
use crate::subject::*;
use crate::tree::*;
use serde_json::json;
use std::collections::BTreeMap;
use std::rc::Rc;
use std::time::Duration;

use chialisp::classic::clvm_tools::stages::stage_0::{DefaultProgramRunner, TRunProgram};
use chialisp::compiler::cldb::{hex_to_modern_sexp, CldbNoOverride, CldbRun, CldbRunEnv};
use chialisp::compiler::clvm::{start_step, RunStep};
use chialisp::compiler::prims;
use chialisp::compiler::sexp::{parse_sexp, SExp};
use chialisp::compiler::srcloc::Srcloc;
use clvmr::allocator::Allocator;

const STEP_BOUND: usize = 20000;

fn tval(s: &Rc<SExp>) -> Result<T, String> {
    from_sexp(s.clone())
}

fn apply_den(head: &T, args: &T) -> Out {
    // (head (q . a1) (q . a2) ... . terminator)
    let mut items = vec![];
    let mut cur = args;
    while let T::P(a, r) = cur {
        items.push(quote((**a).clone()));
        cur = r;
    }
    let prog = T::p(head.clone(), T::list_tail(&items, cur.clone()));
    consensus(&prog, &T::nil())
}

fn ret(k: &RunStep, v: T, depth: usize) -> Out {
    if depth > 4000 {
        return Out::Limit;
    }
    match k {
        RunStep::Done(_, _) => Out::Val(v),
        RunStep::Step(_, _, parent) => ret(parent, v, depth + 1),
        RunStep::OpResult(_, _, parent) => ret(parent, v, depth + 1),
        RunStep::Op(_, _, _, None, parent) => ret(parent, v, depth + 1),
        RunStep::Op(head, ctx, args, Some(remain), parent) => {
            let a = match tval(args) {
                Ok(a) => a,
                Err(e) => return Out::Err(e),
            };
            op_den(head, ctx, T::p(v, a), remain, parent, depth + 1)
        }
    }
}

fn op_den(head: &Rc<SExp>, ctx: &Rc<SExp>, mut args: T, remain: &[Rc<SExp>], parent: &Rc<RunStep>, depth: usize) -> Out {
    let c = match tval(ctx) {
        Ok(c) => c,
        Err(e) => return Out::Err(e),
    };
    for x in remain.iter().rev() {
        let xe = match tval(x) {
            Ok(x) => x,
            Err(e) => return Out::Err(e),
        };
        match consensus(&xe, &c) {
            Out::Val(v) => args = T::p(v, args),
            other => return other,
        }
    }
    let h = match tval(head) {
        Ok(h) => h,
        Err(e) => return Out::Err(e),
    };
    match apply_den(&h, &args) {
        Out::Val(v) => ret(parent, v, depth + 1),
        other => other,
    }
}

/// What the consensus evaluator says the whole computation yields from this state.
fn denote(step: &RunStep) -> Out {
    match step {
        RunStep::Done(_, x) => match tval(x) {
            Ok(v) => Out::Val(v),
            Err(e) => Out::Err(e),
        },
        RunStep::OpResult(_, x, p) => match tval(x) {
            Ok(v) => ret(p, v, 0),
            Err(e) => Out::Err(e),
        },
        RunStep::Step(sexp, ctx, parent) => {
            let (s, c) = match (tval(sexp), tval(ctx)) {
                (Ok(s), Ok(c)) => (s, c),
                _ => return Out::Err("unconvertible".to_string()),
            };
            match consensus(&s, &c) {
                Out::Val(v) => ret(parent, v, 0),
                other => other,
            }
        }
        RunStep::Op(head, ctx, args, Some(remain), parent) => match tval(args) {
            Ok(a) => op_den(head, ctx, a, remain, parent, 0),
            Err(e) => Out::Err(e),
        },
        RunStep::Op(head, ctx, args, None, parent) => match tval(args) {
            Ok(a) => op_den(head, ctx, a, &[], parent, 0),
            Err(e) => Out::Err(e),
        },
    }
}

pub fn parse_value_pub(text: &str) -> Result<T, String> {
    parse_value(text)
}

fn parse_value(text: &str) -> Result<T, String> {
    let t = text.to_string();
    let r = catch(move || parse_sexp(Srcloc::start("*row*"), t.bytes()).map_err(|e| e.1));
    match r {
        Ok(Ok(v)) if v.len() == 1 => from_sexp(v[0].clone()),
        Ok(Ok(v)) => Err(format!("{} forms in {:?}", v.len(), text)),
        Ok(Err(e)) => Err(e),
        Err(p) => Err(format!("PANIC {}", p)),
    }
}

#[derive(Clone, Debug, PartialEq, Eq)]
pub struct RowView {
    pub op: Option<String>,
    pub args: Option<String>,
    pub value: Option<String>,
    pub fin: Option<String>,
    pub fail: bool,
}

pub struct Trace {
    pub rows: Vec<BTreeMap<String, String>>,
    pub steps: usize,
    pub ended: bool,
    pub panic: Option<String>,
    pub invariant_breaks: Vec<String>,
}

/// Steps a program to the end under the step bound; if `want` is given, the
/// denotation invariant is evaluated in every state.
pub fn run_cldb(prog: Rc<SExp>, env: Rc<SExp>, want: Option<&Out>, check_states: bool) -> Trace {
    let mut tr = Trace { rows: vec![], steps: 0, ended: false, panic: None, invariant_breaks: vec![] };
    let want = want.cloned();
    let r = catch(std::panic::AssertUnwindSafe(|| {
        let mut a = Allocator::new();
        let runner: Rc<dyn TRunProgram> = Rc::new(DefaultProgramRunner::new());
        let cldbenv = CldbRunEnv::new(None, Rc::new(vec![]), Box::new(CldbNoOverride::new()));
        let mut run = CldbRun::new(runner, prims::prim_map(), Box::new(cldbenv), start_step(prog, env));
        let mut rows = vec![];
        let mut steps = 0;
        let mut breaks = vec![];
        loop {
            if run.is_ended() || steps >= STEP_BOUND {
                break;
            }
            if check_states {
                if let Some(w) = &want {
                    let d = denote(&run.current_step());
                    let ok = match (w, &d) {
                        (Out::Limit, _) | (_, Out::Limit) => true,
                        (Out::Val(a), Out::Val(b)) => a == b,
                        (Out::Err(_), Out::Err(_)) => true,
                        _ => false,
                    };
                    if !ok && breaks.len() < 2 {
                        breaks.push(format!("state {}: denotation {} but the program's consensus result is {}", steps, d.short(), w.short()));
                    }
                }
            }
            if let Some(row) = run.step(&mut a) {
                rows.push(row);
            }
            steps += 1;
        }
        (rows, steps, run.is_ended(), breaks)
    }));
    match r {
        Ok((rows, steps, ended, breaks)) => {
            tr.rows = rows;
            tr.steps = steps;
            tr.ended = ended;
            tr.invariant_breaks = breaks;
        }
        Err(p) => tr.panic = Some(p),
    }
    tr
}

/// Checks invariants (2)-(4) on an emitted row sequence. Returns violations as (sig-suffix, text).
pub fn check_rows(tr: &Trace, want: &Out) -> Vec<(String, String)> {
    let mut out = vec![];
    if let Some(p) = &tr.panic {
        out.push(("panic".to_string(), format!("debugger panicked: {}", p)));
        return out;
    }
    if !tr.ended {
        if !matches!(want, Out::Limit) && tr.steps >= STEP_BOUND {
            // step bound reached: no claim
        }
        return out;
    }
    for (i, row) in tr.rows.iter().enumerate() {
        if let Some(r) = row.get("Row") {
            if r.parse::<usize>().ok() != Some(i) {
                out.push(("row-numbering".to_string(), format!("row at position {} is numbered {}", i, r)));
            }
        }
        if let (Some(op), Some(args), Some(val)) = (row.get("Operator"), row.get("Arguments"), row.get("Value")) {
            match (parse_value(op), parse_value(args), parse_value(val)) {
                (Ok(o), Ok(a), Ok(v)) => {
                    let got = apply_den(&o, &a);
                    if got != Out::Val(v.clone()) && !matches!(got, Out::Limit) {
                        // `i` never produces a result step of its own: its pending Operator/Arguments are paired with the
                        // next value that shows up, or its Arguments linger under a following apply (one defect, one class)
                        let cls = if o == T::int(3) || o == T::int(2) { "false-row/pending-if-operator".to_string() } else { format!("false-row/op{}", op) };
                        out.push((cls, format!("row {} says operator {} on {} gives {}, the consensus evaluator says {}", i, op, args, val, got.short())));
                    }
                }
                (o, a, v) => out.push(("unparsable-row".to_string(), format!("row {} fields do not read back: {:?} {:?} {:?}", i, o.err(), a.err(), v.err()))),
            }
        }
    }
    let last = tr.rows.last();
    match want {
        Out::Val(v) => match last.and_then(|r| r.get("Final")) {
            Some(f) => match parse_value(f) {
                Ok(fv) if fv == *v => {}
                other => out.push(("final-differs".to_string(), format!("Final is {:?} ({:?}), consensus result {}", f, other.map(|t| t.short()), v.short()))),
            },
            None => out.push(("no-final".to_string(), format!("consensus returns {} but the trace ends with {:?}", v.short(), last))),
        },
        Out::Err(_) => {
            let failed = last.map(|r| r.contains_key("Failure") || r.contains_key("Throw")).unwrap_or(false);
            if !failed {
                out.push(("no-failure".to_string(), format!("consensus fails but the trace ends with {:?}", last)));
            }
        }
        Out::Limit => {}
    }
    out
}

fn view(rows: &[BTreeMap<String, String>]) -> Vec<(Option<T>, Option<T>, Option<T>, Option<T>)> {
    rows.iter()
        .map(|r| {
            (
                r.get("Operator").and_then(|s| parse_value(s).ok()),
                r.get("Arguments").and_then(|s| parse_value(s).ok()),
                r.get("Value").and_then(|s| parse_value(s).ok()),
                r.get("Final").and_then(|s| parse_value(s).ok()),
            )
        })
        .collect()
}

fn check_program(st: &mut Stats, prog: &T, env: &T, sub: &str, counters: &mut (u64, u64)) {
    st.eval();
    let want = consensus(prog, env);
    let ps = to_sexp(prog, Spell::Convert);
    let es = to_sexp(env, Spell::Convert);
    let tr = run_cldb(ps, es.clone(), Some(&want), true);
    counters.0 += tr.steps as u64 + 1;
    counters.1 += tr.steps as u64;
    let cls = c06_sig_pub(prog);
    let replay = json!({"kind": "c12", "prog": prog.hex(), "env": env.hex()});
    let size = prog.bytes().len() + env.bytes().len();
    let mut bad = false;
    let known_class = cls.contains("pair-in-operator-position");
    let mk = |k: &str| {
        if known_class {
            "pair-in-operator-position".to_string()
        } else if k == "false-row/pending-if-operator" {
            k.to_string()
        } else {
            format!("{}/{}", sub, k)
        }
    };
    for b in &tr.invariant_breaks {
        bad = true;
        st.violation(&mk("denotation"), format!("program {} env {}: {}", prog.short(), env.short(), b), size, replay.clone());
    }
    for (k, text) in check_rows(&tr, &want) {
        bad = true;
        st.violation(&mk(&k), format!("program {} env {}: {}", prog.short(), env.short(), text), size, replay.clone());
    }
    // hex-supplied form behaves identically
    let hexprog = {
        let h = prog.hex();
        catch(move || {
            let mut a = Allocator::new();
            hex_to_modern_sexp(&mut a, &std::collections::HashMap::new(), Srcloc::start("*program*"), &h).map_err(|e| format!("{}", e))
        })
    };
    match hexprog {
        Ok(Ok(hp)) => {
            let tr2 = run_cldb(hp, es, None, false);
            counters.0 += tr2.steps as u64 + 1;
            counters.1 += tr2.steps as u64;
            if view(&tr.rows) != view(&tr2.rows) || tr.ended != tr2.ended {
                bad = true;
                st.violation(&mk("hex-differs"), format!("program {} env {}: hex-supplied run emits {} rows, source-form run {} rows, or their contents differ", prog.short(), env.short(), tr2.rows.len(), tr.rows.len()), size, replay.clone());
            }
        }
        other => {
            bad = true;
            st.violation(&mk("hex-unreadable"), format!("hex_to_modern_sexp({}) fails: {:?}", prog.hex(), other.map(|r| r.err())), size, replay);
        }
    }
    st.outcome(&format!("consensus={}/rows>1={}", want.kind(), tr.rows.len() > 1));
    if !bad && tr.ended && tr.rows.len() > 1 {
        st.nontrivial(&(prog, env));
        if tr.rows.len() >= 3 {
            st.sample(json!({"program": prog.short(), "env": env.short(), "rows": tr.rows.iter().map(|r| json!(r)).collect::<Vec<_>>()}));
        }
    }
}

pub fn c12(thorough: bool, replay: Option<String>) -> i32 {
    let mut rep = Report::new("C12", if thorough { "thorough" } else { "quick" }, "model_checking");
    rep.rule = "explicit-state exploration of the real debugger machine: every (program, environment) of the stated finite sets is stepped with CldbRun::step from the initial state to the end (step bound 20000). In EVERY visited state the continuation is reified and its denotation under the consensus evaluator must equal the program's consensus result (or both fail); \
        every emitted row carrying Operator+Arguments+Value must be true of the consensus evaluator; Row numbers must be consecutive; the trace must end with Final = consensus value, or Throw/Failure iff consensus fails; the hex-supplied form (hex_to_modern_sexp) must emit the same (operator, arguments, value) rows. \
        states = RunStep states visited, transitions = step calls; every trace is a trace of the implementation. non-trivial = distinct (program, env) whose trace has more than one row and passed all invariants"
        .to_string();
    rep.assumptions = vec!["clvmr is the consensus evaluator".to_string(), "row texts are read back with the modern reader in the fixed integer mode (round trip established by C09)".to_string()];
    if let Some(path) = replay {
        let v: serde_json::Value = serde_json::from_str(&std::fs::read_to_string(&path).expect("read replay")).expect("json");
        let r = &v["replay"];
        let mut st = Stats::new();
        let mut c = (0, 0);
        for _ in 0..2 {
            check_program(&mut st, &t_from_hex(r["prog"].as_str().unwrap()), &t_from_hex(r["env"].as_str().unwrap()), "replay", &mut c);
        }
        rep.states = c.0;
        rep.transitions = c.1;
        rep.traces = 4;
        rep.add_sub("replay", "one case", 1, false, false, st);
        return rep.finish();
    }
    let cap = Some(Duration::from_secs(if thorough { 2400 } else { 45 }));
    let mut n0 = 0;
    let envs = vec![T::nil(), crate::clvmmc::complete_tree_pub(3, &mut n0), T::list(&[T::p(T::int(7), T::int(8)), T::a(&[0]), T::int(5)])];
    let leaves = if thorough { 5 } else { 4 };
    let sp = TreeSpace::new(ops_core(), leaves);
    let ne = envs.len() as u64;
    let n = sp.total * ne;
    let (mut st, capped) = par_range(n, 1024, cap, || (0u64, 0u64), |c, st, i| {
        let before = *c;
        check_program(st, &sp.get(i / ne), &envs[(i % ne) as usize], "raw", c);
        st.count("states", c.0 - before.0);
        st.count("transitions", c.1 - before.1);
        st.count("traces", 2);
    });
    rep.states += st.counters.get("states").copied().unwrap_or(0);
    rep.transitions += st.counters.get("transitions").copied().unwrap_or(0);
    rep.traces += st.counters.get("traces").copied().unwrap_or(0);
    st.max_samples = 3;
    rep.add_sub("raw-clvm", &format!("every tree with 1..{} leaves over the 16-atom core alphabet x 3 environments, source form and hex form", leaves), n, true, capped, st);
    // compiled generated programs (long traces: function calls, recursion), with their symbol tables; plain and hierarchical view
    {
        use crate::gen::*;
        use crate::progmc::{dialect_of, entry_option_sets};
        let mut cases: Vec<(Case, &'static str)> = vec![];
        let sigs: Vec<&'static str> = if thorough { SIGILS.to_vec() } else { vec![SIGILS[0], SIGILS[5]] };
        for s in sigs {
            for c in scope_chains(if thorough { 2 } else { 1 }) {
                if c.len() == 2 && c[0].1 != c[1].1 {
                    continue;
                }
                cases.push((scope_case(&c, NamePolicy::Fresh, Some(s)), s));
            }
            for c in calls_cases(Some(s), 2) {
                if c.tags[0].starts_with("calls/recursion") || c.tags[0].starts_with("calls/mutual") || c.tags[0].starts_with("calls/chain") {
                    cases.push((c, s));
                }
            }
        }
        let n = cases.len() as u64;
        let (mut st, capped) = par_range(n, 2, cap, || (0u64, 0u64), |c, st, i| {
            let before = *c;
            let (case, sigil) = &cases[i as usize];
            let text = case.prog.text();
            let o = entry_option_sets(sigil)[0].1.clone();
            if let Ok(comp) = modern_compile(&text, dialect_of(sigil), &o) {
                for a in case.args.iter().take(2) {
                    check_program(st, &comp.code, a, "compiled", c);
                    // hierarchical view with the program's symbols
                    st.eval();
                    let want = consensus(&comp.code, a);
                    let (code, syms, args) = (comp.code.clone(), comp.symbols.clone(), a.clone());
                    let r = catch(std::panic::AssertUnwindSafe(move || {
                        let runner: Rc<dyn TRunProgram> = Rc::new(DefaultProgramRunner::new());
                        let tree = chialisp::classic::clvm_tools::cmds::cldb_hierarchy(chialisp::classic::clvm_tools::cmds::CldbHierarchyArgs {
                            runner,
                            prim_map: prims::prim_map(),
                            input_file_name: None,
                            lines: Rc::new(vec![]),
                            symbol_table: Rc::new(syms),
                            prog: to_sexp(&code, Spell::Convert),
                            args: to_sexp(&args, Spell::Convert),
                            flags: 0,
                        });
                        fn finals(y: &chialisp::classic::clvm_tools::cmds::YamlElement, out: &mut Vec<String>) {
                            use chialisp::classic::clvm_tools::cmds::YamlElement as Y;
                            match y {
                                Y::String(_) => {}
                                Y::Array(a) => a.iter().for_each(|x| finals(x, out)),
                                Y::Subtree(m) => {
                                    for (k, v) in m {
                                        if k == "Final" {
                                            if let Y::String(s) = v {
                                                out.push(s.clone());
                                            }
                                        }
                                        finals(v, out);
                                    }
                                }
                            }
                        }
                        let mut f = vec![];
                        for m in &tree {
                            finals(&chialisp::classic::clvm_tools::cmds::YamlElement::Subtree(m.clone()), &mut f);
                        }
                        (tree.len(), f)
                    }));
                    c.0 += 1;
                    match (r, &want) {
                        (Err(p), _) => st.violation("compiled/hierarchy-panic", format!("hierarchical view panics on {}: {}", text, p), text.len(), json!({"kind": "c12-h", "text": text})),
                        (Ok((_, finals)), Out::Val(v)) => {
                            let last = finals.last().and_then(|s| parse_value(s).ok());
                            if last.as_ref() == Some(v) {
                                st.outcome("hierarchy-final-ok");
                                st.nontrivial(&(&text, a, "h"));
                            } else {
                                st.violation("compiled/hierarchy-final-differs", format!("{} on {}: hierarchical view ends with Final {:?}, consensus value {}", text, a.short(), finals.last(), v.short()), text.len(), json!({"kind": "c12-h", "text": text, "args": a.hex()}));
                            }
                        }
                        _ => st.outcome("hierarchy-no-claim"),
                    }
                }
            } else {
                st.outcome("rejected");
            }
            st.count("states", c.0 - before.0);
            st.count("transitions", c.1 - before.1);
            st.count("traces", 3);
        });
        rep.states += st.counters.get("states").copied().unwrap_or(0);
        rep.transitions += st.counters.get("transitions").copied().unwrap_or(0);
        rep.traces += st.counters.get("traces").copied().unwrap_or(0);
        st.max_samples = 2;
        rep.add_sub("compiled-programs", &format!("{} compiled generated programs (binder chains, recursion, call chains) with symbols x 2 valuations: plain view (source form and hex form) and hierarchical view", n), n, true, capped, st);
    }

    // the path family: wide / top-bit-set / sign-extended path atoms as operands, against deep environments
    {
        let (paths, firsts) = crate::clvmmc::path_family(thorough);
        let nctx = 3u64;
        let n = paths.len() as u64 * nctx;
        let (mut st, capped) = par_range(n, 8, cap, || (0u64, 0u64), |c, st, i| {
            let before = *c;
            let p = &paths[(i / nctx) as usize];
            let pa = T::A(p.clone());
            let prog = match i % nctx {
                0 => T::list(&[T::a(&[4]), pa, crate::oracle::quote(T::int(1))]),
                1 => T::list(&[T::a(&[2]), crate::oracle::quote(T::list(&[T::a(&[4]), pa, T::a(&[1])])), T::a(&[1])]),
                _ => T::list(&[T::a(&[7]), pa]),
            };
            let mut traces = 0;
            for env in crate::clvmmc::path_envs(p, 6, thorough) {
                check_program(st, &prog, &env, "paths", c);
                traces += 2;
            }
            st.count("states", c.0 - before.0);
            st.count("transitions", c.1 - before.1);
            st.count("traces", traces);
        });
        rep.states += st.counters.get("states").copied().unwrap_or(0);
        rep.transitions += st.counters.get("transitions").copied().unwrap_or(0);
        rep.traces += st.counters.get("traces").copied().unwrap_or(0);
        st.max_samples = 2;
        rep.add_sub("paths", &format!("{} path atoms (all 1-byte, 2-byte with first byte in {} values x all second bytes, lengths 3..9 over boundary patterns) as operand of c, inside (a (q . (c P 1)) 1), and under l; environments: complete tree of depth 6, a tree tailored to the path's bits{}; source form and hex form", paths.len(), firsts.len(), if thorough { ", four 90-deep spines" } else { "" }), n, true, capped, st);
    }

    // well-formed nested expressions: long enough traces for rows to be mis-attributed
    let es = crate::clvmmc::ExprSpace::new();
    let envs2 = vec![T::list(&[T::int(11), T::int(12), T::int(13)]), T::p(T::p(T::int(21), T::int(22)), T::p(T::nil(), T::int(24)))];
    let ne2 = envs2.len() as u64;
    let stride = if thorough { 1 } else { 5 };
    let n = es.total / stride * ne2;
    let (mut st, capped) = par_range(n, 256, cap, || (0u64, 0u64), |c, st, i| {
        let before = *c;
        check_program(st, &es.get((i / ne2) * stride), &envs2[(i % ne2) as usize], "expr", c);
        st.count("states", c.0 - before.0);
        st.count("transitions", c.1 - before.1);
        st.count("traces", 2);
    });
    rep.states += st.counters.get("states").copied().unwrap_or(0);
    rep.transitions += st.counters.get("transitions").copied().unwrap_or(0);
    rep.traces += st.counters.get("traces").copied().unwrap_or(0);
    st.max_samples = 3;
    rep.add_sub("expressions", &format!("well-formed expressions of nesting depth <= 2 over f r l c + = i a, paths 1 2 5 and three constants ({} in total; {}) x 2 environments", es.total, if stride == 1 { "all of them".to_string() } else { format!("every {}th by index - a fixed sub-enumeration, not a sample", stride) }), n, stride == 1, capped, st);
    rep.finish()
}

/// Steps a program under a step bound; returns the panic message if the debugger panicked.
pub fn run_cldb_bounded(prog: Rc<SExp>, env: Rc<SExp>, bound: usize) -> Option<String> {
    let r = catch(std::panic::AssertUnwindSafe(|| {
        let mut a = Allocator::new();
        let runner: Rc<dyn TRunProgram> = Rc::new(DefaultProgramRunner::new());
        let cldbenv = CldbRunEnv::new(None, Rc::new(vec![]), Box::new(CldbNoOverride::new()));
        let mut run = CldbRun::new(runner, prims::prim_map(), Box::new(cldbenv), start_step(prog, env));
        let mut steps = 0;
        while !run.is_ended() && steps < bound {
            let _ = run.step(&mut a);
            steps += 1;
        }
    }));
    r.err()
}
