//! Harness-owned surface-language AST, printer and reference interpreter
//! ("the language's call-by-value meaning"). Never parses text with the
//! repository's reader and never calls repository code: primitive operators
//! are applied by clvmr, everything else is defined here, boring on purpose.
use crate::oracle::{consensus, quote, Out};
use crate::tree::*;
use std::rc::Rc;

#[derive(Clone, Debug, PartialEq, Eq, Hash)]
pub enum Pat {
    Name(String),
    Nil,
    Cons(Box<Pat>, Box<Pat>),
    At(String, Box<Pat>),
}

impl Pat {
    pub fn n(s: &str) -> Pat {
        Pat::Name(s.to_string())
    }
    pub fn list(items: Vec<Pat>) -> Pat {
        Pat::list_tail(items, Pat::Nil)
    }
    pub fn list_tail(items: Vec<Pat>, tail: Pat) -> Pat {
        let mut r = tail;
        for i in items.into_iter().rev() {
            r = Pat::Cons(Box::new(i), Box::new(r));
        }
        r
    }
    pub fn names(&self, out: &mut Vec<String>) {
        match self {
            Pat::Name(n) => out.push(n.clone()),
            Pat::Nil => {}
            Pat::Cons(a, b) => {
                a.names(out);
                b.names(out);
            }
            Pat::At(n, p) => {
                out.push(n.clone());
                p.names(out);
            }
        }
    }
    pub fn text(&self) -> String {
        match self {
            Pat::Name(n) => n.clone(),
            Pat::Nil => "()".to_string(),
            Pat::At(n, p) => format!("(@ {} {})", n, p.text()),
            Pat::Cons(_, _) => {
                let mut s = String::from("(");
                let mut cur = self;
                let mut first = true;
                loop {
                    match cur {
                        Pat::Cons(a, b) => {
                            if !first {
                                s.push(' ');
                            }
                            s.push_str(&a.text());
                            first = false;
                            cur = b;
                        }
                        Pat::Nil => break,
                        other => {
                            s.push_str(" . ");
                            s.push_str(&other.text());
                            break;
                        }
                    }
                }
                s.push(')');
                s
            }
        }
    }
}

#[derive(Clone, Debug, PartialEq, Eq, Hash)]
pub enum LetKind {
    Let,
    LetStar,
}
#[derive(Clone, Debug, PartialEq, Eq, Hash)]
pub enum AssignKind {
    Plain,
    Inline,
    Lambda,
}

#[derive(Clone, Debug, PartialEq, Eq, Hash)]
pub enum E {
    Var(String),
    /// literal with explicit source spelling and the value it denotes
    Lit(String, T),
    /// (q . datum) with a purely numeric datum
    Quote(T),
    /// (q . NAME): a quoted symbol; denotes the atom spelled NAME
    QuoteSym(String),
    Prim(String, Vec<E>),
    If(Box<E>, Box<E>, Box<E>),
    List(Vec<E>),
    Call(String, Vec<E>, Option<Box<E>>),
    MacroCall(String, Vec<E>),
    Let(LetKind, Vec<(String, E)>, Box<E>),
    Assign(AssignKind, Vec<(Pat, E)>, Box<E>),
    Lambda(Vec<String>, Pat, Box<E>),
    Apply(Box<E>, Box<E>),
    /// (a (mod PARAMS helpers... body) ARGS): a nested module applied to an argument list. The nested
    /// module is closed (no outer name is visible inside it) and has its own helpers.
    ApplyMod(Box<Prog>, Box<E>),
}

impl E {
    pub fn v(s: &str) -> E {
        E::Var(s.to_string())
    }
    pub fn int(i: i64) -> E {
        E::Lit(i.to_string(), T::int(i))
    }
    pub fn prim(op: &str, a: Vec<E>) -> E {
        E::Prim(op.to_string(), a)
    }
    pub fn call(f: &str, a: Vec<E>) -> E {
        E::Call(f.to_string(), a, None)
    }
}

#[derive(Clone, Debug, PartialEq, Eq, Hash)]
pub enum Helper {
    Fun { name: String, inline: bool, params: Pat, body: E },
    /// (defconstant NAME datum): literal numeric datum
    Constant { name: String, datum: T },
    /// (defconst NAME expr): evaluated at compile time
    Const { name: String, body: E },
    /// (defmacro NAME (P...) (qq template)) with template an expression over the parameters
    Macro { name: String, params: Vec<String>, template: E },
}

#[derive(Clone, Debug, PartialEq, Eq, Hash)]
pub struct Prog {
    pub sigil: Option<&'static str>,
    pub params: Pat,
    pub helpers: Vec<Helper>,
    pub body: E,
}

// ---------------------------------------------------------------------------
// printer

pub fn datum_text(t: &T) -> String {
    // numeric data only; small atoms as decimals, larger as hex
    match t {
        T::A(v) if v.is_empty() => "()".to_string(),
        T::A(v) => {
            let n = num_bigint::BigInt::from_signed_bytes_be(v);
            if int_bytes_big(&n) == *v && v.len() <= 8 {
                n.to_string()
            } else {
                format!("0x{}", hex::encode(v))
            }
        }
        T::P(_, _) => {
            let mut s = String::from("(");
            let mut cur = t;
            let mut first = true;
            loop {
                match cur {
                    T::P(a, b) => {
                        if !first {
                            s.push(' ');
                        }
                        s.push_str(&datum_text(a));
                        first = false;
                        cur = b;
                    }
                    T::A(v) if v.is_empty() => break,
                    other => {
                        s.push_str(" . ");
                        s.push_str(&datum_text(other));
                        break;
                    }
                }
            }
            s.push(')');
            s
        }
    }
}

fn join(v: &[E], tmpl: Option<&[String]>) -> String {
    v.iter().map(|e| e.text_(tmpl)).collect::<Vec<_>>().join(" ")
}

impl E {
    pub fn text(&self) -> String {
        self.text_(None)
    }
    /// `tmpl`: when printing a macro template inside (qq ...), the macro's parameters are unquoted
    fn text_(&self, tmpl: Option<&[String]>) -> String {
        match self {
            E::Var(n) => {
                if let Some(ps) = tmpl {
                    if ps.contains(n) {
                        return format!("(unquote {})", n);
                    }
                }
                n.clone()
            }
            E::Lit(s, _) => s.clone(),
            E::Quote(t) => format!("(q . {})", datum_text(t)),
            E::QuoteSym(n) => format!("(q . {})", n),
            E::Prim(op, a) => {
                if a.is_empty() {
                    format!("({})", op)
                } else {
                    format!("({} {})", op, join(a, tmpl))
                }
            }
            E::If(c, t, e) => format!("(if {} {} {})", c.text_(tmpl), t.text_(tmpl), e.text_(tmpl)),
            E::List(a) => {
                if a.is_empty() {
                    "(list)".to_string()
                } else {
                    format!("(list {})", join(a, tmpl))
                }
            }
            E::Call(f, a, rest) => {
                let mut s = format!("({}", f);
                for x in a {
                    s.push(' ');
                    s.push_str(&x.text_(tmpl));
                }
                if let Some(r) = rest {
                    s.push_str(" &rest ");
                    s.push_str(&r.text_(tmpl));
                }
                s.push(')');
                s
            }
            E::MacroCall(f, a) => {
                if a.is_empty() {
                    format!("({})", f)
                } else {
                    format!("({} {})", f, join(a, tmpl))
                }
            }
            E::Let(k, bs, body) => {
                let kw = if *k == LetKind::Let { "let" } else { "let*" };
                let b: Vec<String> = bs.iter().map(|(n, e)| format!("({} {})", n, e.text_(tmpl))).collect();
                format!("({} ({}) {})", kw, b.join(" "), body.text_(tmpl))
            }
            E::Assign(k, bs, body) => {
                let kw = match k {
                    AssignKind::Plain => "assign",
                    AssignKind::Inline => "assign-inline",
                    AssignKind::Lambda => "assign-lambda",
                };
                let b: Vec<String> = bs.iter().map(|(p, e)| format!("{} {}", p.text(), e.text_(tmpl))).collect();
                format!("({} {} {})", kw, b.join(" "), body.text_(tmpl))
            }
            E::Lambda(caps, params, body) => {
                let head = if caps.is_empty() {
                    params.text()
                } else {
                    // ((& C1 C2) . params)
                    let capt = format!("(& {})", caps.join(" "));
                    match params {
                        Pat::Nil => format!("({})", capt),
                        Pat::Cons(_, _) => {
                            let p = params.text();
                            format!("({} {}", capt, &p[1..])
                        }
                        other => format!("({} . {})", capt, other.text()),
                    }
                };
                format!("(lambda {} {})", head, body.text_(tmpl))
            }
            E::Apply(f, a) => format!("(a {} {})", f.text_(tmpl), a.text_(tmpl)),
            E::ApplyMod(p, a) => format!("(a {} {})", p.text(), a.text_(tmpl)),
        }
    }
}

impl Helper {
    pub fn text(&self) -> String {
        match self {
            Helper::Fun { name, inline, params, body } => format!("({} {} {} {})", if *inline { "defun-inline" } else { "defun" }, name, params.text(), body.text()),
            Helper::Constant { name, datum } => format!("(defconstant {} {})", name, datum_text(datum)),
            Helper::Const { name, body } => format!("(defconst {} {})", name, body.text()),
            Helper::Macro { name, params, template } => format!("(defmacro {} ({}) (qq {}))", name, params.join(" "), template.text_(Some(params))),
        }
    }
}

impl Prog {
    pub fn text(&self) -> String {
        let mut s = format!("(mod {}", self.params.text());
        if let Some(sg) = self.sigil {
            s.push_str(&format!(" (include {})", sg));
        }
        for h in &self.helpers {
            s.push(' ');
            s.push_str(&h.text());
        }
        s.push(' ');
        s.push_str(&self.body.text());
        s.push(')');
        s
    }
}

// ---------------------------------------------------------------------------
// reference interpreter

#[derive(Clone, Debug)]
pub enum V {
    A(Vec<u8>),
    P(Rc<V>, Rc<V>),
    Clo(Rc<Closure>),
}

#[derive(Debug)]
pub struct Closure {
    pub captured: Vec<(String, V)>,
    pub params: Pat,
    pub body: E,
}

impl V {
    pub fn from_t(t: &T) -> V {
        match t {
            T::A(v) => V::A(v.clone()),
            T::P(a, b) => V::P(Rc::new(V::from_t(a)), Rc::new(V::from_t(b))),
        }
    }
    pub fn to_t(&self) -> Option<T> {
        match self {
            V::A(v) => Some(T::A(v.clone())),
            V::P(a, b) => Some(T::p(a.to_t()?, b.to_t()?)),
            V::Clo(_) => None,
        }
    }
    pub fn nil() -> V {
        V::A(vec![])
    }
}

/// "no value": the source-level evaluation does not define a result (error, raise, fuel,
/// or a construct outside the documented fragment) => no claim is made.
#[derive(Debug, Clone)]
pub struct NoValue(pub String);

type Env = Vec<(String, V)>;

pub struct Interp<'a> {
    pub prog: &'a Prog,
    pub fuel: i64,
}

fn lookup<'e>(env: &'e Env, n: &str) -> Option<&'e V> {
    env.iter().rev().find(|(k, _)| k == n).map(|(_, v)| v)
}

pub fn bind(p: &Pat, v: &V, env: &mut Env) -> Result<(), NoValue> {
    match p {
        Pat::Name(n) => {
            env.push((n.clone(), v.clone()));
            Ok(())
        }
        Pat::Nil => Ok(()),
        Pat::At(n, sub) => {
            env.push((n.clone(), v.clone()));
            bind(sub, v, env)
        }
        Pat::Cons(a, b) => match v {
            V::P(x, y) => {
                bind(a, x, env)?;
                bind(b, y, env)
            }
            _ => Err(NoValue("destructuring an atom".to_string())),
        },
    }
}

impl<'a> Interp<'a> {
    pub fn new(prog: &'a Prog) -> Self {
        Interp { prog, fuel: 20000 }
    }

    pub fn run(&mut self, args: &T) -> Result<T, NoValue> {
        let mut env = vec![];
        bind(&self.prog.params, &V::from_t(args), &mut env)?;
        let body = self.prog.body.clone();
        let v = self.eval(&body, &env)?;
        v.to_t().ok_or_else(|| NoValue("result contains a closure".to_string()))
    }

    fn helper_fun(&self, name: &str) -> Option<(&Pat, &E)> {
        self.prog.helpers.iter().find_map(|h| match h {
            Helper::Fun { name: n, params, body, .. } if n == name => Some((params, body)),
            _ => None,
        })
    }

    fn constant(&mut self, name: &str) -> Option<Result<V, NoValue>> {
        for h in self.prog.helpers.iter() {
            match h {
                Helper::Constant { name: n, datum } if n == name => return Some(Ok(V::from_t(datum))),
                Helper::Const { name: n, body } if n == name => {
                    let b = body.clone();
                    return Some(self.eval(&b, &vec![]));
                }
                _ => {}
            }
        }
        None
    }

    fn prim(&mut self, op: &str, args: &[V]) -> Result<V, NoValue> {
        let mut ts = vec![];
        for a in args {
            ts.push(a.to_t().ok_or_else(|| NoValue("closure given to an operator".to_string()))?);
        }
        let opcode = opcode_of(op).ok_or_else(|| NoValue(format!("unknown operator {}", op)))?;
        let mut items = vec![T::A(opcode)];
        items.extend(ts.into_iter().map(quote));
        match consensus(&T::list(&items), &T::nil()) {
            Out::Val(v) => Ok(V::from_t(&v)),
            Out::Err(e) => Err(NoValue(format!("operator {} fails: {}", op, e))),
            Out::Limit => Err(NoValue("cost limit".to_string())),
        }
    }

    fn list_value(items: Vec<V>, tail: V) -> V {
        let mut r = tail;
        for i in items.into_iter().rev() {
            r = V::P(Rc::new(i), Rc::new(r));
        }
        r
    }

    pub fn eval(&mut self, e: &E, env: &Env) -> Result<V, NoValue> {
        self.fuel -= 1;
        if self.fuel < 0 {
            return Err(NoValue("fuel".to_string()));
        }
        match e {
            E::Var(n) => {
                if let Some(v) = lookup(env, n) {
                    return Ok(v.clone());
                }
                if let Some(c) = self.constant(n) {
                    return c;
                }
                Err(NoValue(format!("unbound {}", n)))
            }
            E::Lit(_, t) => Ok(V::from_t(t)),
            E::Quote(t) => Ok(V::from_t(t)),
            E::QuoteSym(n) => Ok(V::A(n.as_bytes().to_vec())),
            E::Prim(op, args) => {
                let mut vs = vec![];
                for a in args {
                    vs.push(self.eval(a, env)?);
                }
                self.prim(op, &vs)
            }
            E::If(c, t, f) => {
                let cv = self.eval(c, env)?;
                let truthy = match &cv {
                    V::A(v) => !v.is_empty(),
                    _ => true,
                };
                if truthy {
                    self.eval(t, env)
                } else {
                    self.eval(f, env)
                }
            }
            E::List(items) => {
                let mut vs = vec![];
                for a in items {
                    vs.push(self.eval(a, env)?);
                }
                Ok(Self::list_value(vs, V::nil()))
            }
            E::Call(f, args, rest) => {
                let mut vs = vec![];
                for a in args {
                    vs.push(self.eval(a, env)?);
                }
                let tail = match rest {
                    Some(r) => self.eval(r, env)?,
                    None => V::nil(),
                };
                let argv = Self::list_value(vs, tail);
                let (params, body) = self.helper_fun(f).ok_or_else(|| NoValue(format!("unknown function {}", f)))?;
                let (params, body) = (params.clone(), body.clone());
                let mut fenv = vec![];
                bind(&params, &argv, &mut fenv)?;
                self.eval(&body, &fenv)
            }
            E::MacroCall(name, args) => {
                let (params, template) = self
                    .prog
                    .helpers
                    .iter()
                    .find_map(|h| match h {
                        Helper::Macro { name: n, params, template } if n == name => Some((params.clone(), template.clone())),
                        _ => None,
                    })
                    .ok_or_else(|| NoValue(format!("unknown macro {}", name)))?;
                if params.len() != args.len() {
                    return Err(NoValue("macro arity".to_string()));
                }
                let expanded = subst(&template, &params, args);
                self.eval(&expanded, env)
            }
            E::Let(kind, bs, body) => {
                let mut nenv = env.clone();
                match kind {
                    LetKind::Let => {
                        let mut vals = vec![];
                        for (_, be) in bs {
                            vals.push(self.eval(be, env)?);
                        }
                        for ((n, _), v) in bs.iter().zip(vals) {
                            nenv.push((n.clone(), v));
                        }
                    }
                    LetKind::LetStar => {
                        for (n, be) in bs {
                            let v = self.eval(be, &nenv)?;
                            nenv.push((n.clone(), v));
                        }
                    }
                }
                self.eval(body, &nenv)
            }
            E::Assign(_, bs, body) => {
                // dependency order: repeatedly evaluate a binding all of whose free pattern-bound names are available
                let mut all_bound: Vec<String> = vec![];
                for (p, _) in bs {
                    p.names(&mut all_bound);
                }
                let mut nenv = env.clone();
                let mut done = vec![false; bs.len()];
                let mut defined: Vec<String> = vec![];
                for _round in 0..bs.len() {
                    let mut progressed = false;
                    for (i, (p, be)) in bs.iter().enumerate() {
                        if done[i] {
                            continue;
                        }
                        let mut fv = vec![];
                        free_vars(be, &mut fv);
                        let ready = fv.iter().all(|n| !all_bound.contains(n) || defined.contains(n));
                        if ready {
                            let v = self.eval(be, &nenv)?;
                            bind(p, &v, &mut nenv)?;
                            p.names(&mut defined);
                            done[i] = true;
                            progressed = true;
                        }
                    }
                    if !progressed {
                        break;
                    }
                }
                if done.iter().any(|d| !*d) {
                    return Err(NoValue("cyclic assign".to_string()));
                }
                self.eval(body, &nenv)
            }
            E::Lambda(caps, params, body) => {
                let mut captured = vec![];
                for c in caps {
                    let v = lookup(env, c).cloned().ok_or_else(|| NoValue(format!("unbound capture {}", c)))?;
                    captured.push((c.clone(), v));
                }
                Ok(V::Clo(Rc::new(Closure { captured, params: params.clone(), body: (**body).clone() })))
            }
            E::Apply(f, a) => {
                let fv = self.eval(f, env)?;
                let av = self.eval(a, env)?;
                match fv {
                    V::Clo(c) => {
                        let mut cenv = c.captured.clone();
                        bind(&c.params, &av, &mut cenv)?;
                        self.eval(&c.body, &cenv)
                    }
                    _ => Err(NoValue("apply of a non-closure (outside the documented fragment)".to_string())),
                }
            }
            E::ApplyMod(p, a) => {
                let av = self.eval(a, env)?;
                let at = av.to_t().ok_or_else(|| NoValue("closure given to a nested module".to_string()))?;
                let mut sub = Interp { prog: p, fuel: self.fuel };
                let r = sub.run(&at);
                self.fuel = sub.fuel;
                Ok(V::from_t(&r?))
            }
        }
    }
}

pub fn free_vars(e: &E, out: &mut Vec<String>) {
    match e {
        E::Var(n) => out.push(n.clone()),
        E::Lit(_, _) | E::Quote(_) | E::QuoteSym(_) => {}
        E::Prim(_, a) | E::List(a) | E::MacroCall(_, a) => a.iter().for_each(|x| free_vars(x, out)),
        E::If(c, t, f) => {
            free_vars(c, out);
            free_vars(t, out);
            free_vars(f, out);
        }
        E::Call(_, a, r) => {
            a.iter().for_each(|x| free_vars(x, out));
            if let Some(r) = r {
                free_vars(r, out);
            }
        }
        E::Let(_, bs, b) => {
            bs.iter().for_each(|(_, x)| free_vars(x, out));
            free_vars(b, out);
        }
        E::Assign(_, bs, b) => {
            bs.iter().for_each(|(_, x)| free_vars(x, out));
            free_vars(b, out);
        }
        E::Lambda(caps, _, _) => out.extend(caps.iter().cloned()),
        E::Apply(f, a) => {
            free_vars(f, out);
            free_vars(a, out);
        }
        E::ApplyMod(_, a) => free_vars(a, out),
    }
}

/// Substitute argument forms for macro parameters (templates never bind names themselves).
pub fn subst(t: &E, params: &[String], args: &[E]) -> E {
    let s = |x: &E| subst(x, params, args);
    match t {
        E::Var(n) => match params.iter().position(|p| p == n) {
            Some(i) => args[i].clone(),
            None => t.clone(),
        },
        E::Lit(_, _) | E::Quote(_) | E::QuoteSym(_) => t.clone(),
        E::Prim(op, a) => E::Prim(op.clone(), a.iter().map(s).collect()),
        E::List(a) => E::List(a.iter().map(s).collect()),
        E::MacroCall(n, a) => E::MacroCall(n.clone(), a.iter().map(s).collect()),
        E::If(c, x, y) => E::If(Box::new(s(c)), Box::new(s(x)), Box::new(s(y))),
        E::Call(f, a, r) => E::Call(f.clone(), a.iter().map(s).collect(), r.as_ref().map(|r| Box::new(s(r)))),
        E::Let(k, bs, b) => E::Let(k.clone(), bs.iter().map(|(n, x)| (n.clone(), s(x))).collect(), Box::new(s(b))),
        E::Assign(k, bs, b) => E::Assign(k.clone(), bs.iter().map(|(p, x)| (p.clone(), s(x))).collect(), Box::new(s(b))),
        E::Lambda(c, p, b) => E::Lambda(c.clone(), p.clone(), Box::new(s(b))),
        E::Apply(f, a) => E::Apply(Box::new(s(f)), Box::new(s(a))),
        E::ApplyMod(p, a) => E::ApplyMod(p.clone(), Box::new(s(a))),
    }
}

/// Operator name -> opcode, a harness-owned table (cross-checked against the repository's tables by C20).
pub fn opcode_of(name: &str) -> Option<Vec<u8>> {
    let b = |x: u8| Some(vec![x]);
    match name {
        "i" => b(3),
        "c" => b(4),
        "f" => b(5),
        "r" => b(6),
        "l" => b(7),
        "x" => b(8),
        "=" => b(9),
        ">s" => b(10),
        "sha256" => b(11),
        "substr" => b(12),
        "strlen" => b(13),
        "concat" => b(14),
        "+" => b(16),
        "-" => b(17),
        "*" => b(18),
        "divmod" => b(20),
        ">" => b(21),
        "ash" => b(22),
        "lsh" => b(23),
        "logand" => b(24),
        "logior" => b(25),
        "logxor" => b(26),
        "lognot" => b(27),
        "not" => b(32),
        "any" => b(33),
        "all" => b(34),
        "coinid" => b(48),
        "modpow" => b(60),
        "%" => b(61),
        "keccak256" => b(62),
        _ => None,
    }
}
