//! Bounded-exhaustive program generators (surface Chialisp), one per family of
//! interaction the properties name. Each returns the complete finite set for
//! its bound, in a deterministic order.
use crate::lang::*;
use crate::tree::*;

pub const SIGILS: [&str; 6] = ["*standard-cl-21*", "*strict-cl-21*", "*standard-cl-22*", "*standard-cl-23*", "*standard-cl-23.1*", "*standard-cl-24*"];

#[derive(Clone, Debug)]
pub struct Case {
    pub prog: Prog,
    /// argument valuations
    pub args: Vec<T>,
    /// feature tags (used in signatures and the evidence histogram)
    pub tags: Vec<String>,
}

fn observer(tag: i64, scope: &[String]) -> E {
    let mut items = vec![E::int(tag)];
    let mut seen: Vec<&String> = vec![];
    for n in scope.iter().rev() {
        if !seen.contains(&n) {
            seen.push(n);
        }
    }
    seen.reverse();
    for n in seen {
        items.push(E::Var(n.clone()));
    }
    E::List(items)
}

// ---------------------------------------------------------------------------
// SCOPE: binder chains

pub const BINDERS: [&str; 13] = ["defun", "inline", "let", "let*", "assign", "assign-inline", "assign-lambda", "lambda", "lambda-capture", "macro", "if-branch", "rest-call", "destructure-call"];

#[derive(Clone, Copy, PartialEq, Eq, Debug)]
pub enum NamePolicy {
    Fresh,
    /// every level binds the names X and Y again (shadowing / capture stress)
    SameEverywhere,
    /// new names equal the main parameters' names
    ShadowParams,
}

struct Ctx {
    helpers: Vec<Helper>,
    policy: NamePolicy,
}

fn names_for(policy: NamePolicy, level: usize) -> (String, String) {
    match policy {
        NamePolicy::Fresh => (format!("X{}", level), format!("Y{}", level)),
        NamePolicy::SameEverywhere => ("X".to_string(), "Y".to_string()),
        NamePolicy::ShadowParams => ("A".to_string(), "B".to_string()),
    }
}

/// two binding expressions over the current scope: one derived value, one structure-building value
fn binding_exprs(scope: &[String], variant: usize) -> (E, E) {
    let v0 = E::Var(scope[scope.len() - 1].clone());
    let v1 = E::Var(scope[0].clone());
    match variant {
        0 => (E::prim("c", vec![v0.clone(), v1.clone()]), v0),
        _ => (E::prim("r", vec![E::prim("c", vec![E::int(9), v1.clone()])]), E::List(vec![v0, E::int(7)])),
    }
}

/// Builds the expression for `chain[level..]` in `scope`; helper definitions are appended to ctx.
fn build(ctx: &mut Ctx, chain: &[(usize, usize)], level: usize, scope: &[String]) -> E {
    if level == chain.len() {
        return observer(100 + level as i64, scope);
    }
    let (b, variant) = chain[level];
    let (nx, ny) = names_for(ctx.policy, level);
    let (ex, ey) = binding_exprs(scope, variant);
    let mut inner_scope: Vec<String> = scope.to_vec();
    inner_scope.push(nx.clone());
    inner_scope.push(ny.clone());
    let fname = format!("F{}", level);
    match BINDERS[b] {
        "let" => {
            let body = build(ctx, chain, level + 1, &inner_scope);
            E::Let(LetKind::Let, vec![(nx, ex), (ny, ey)], Box::new(body))
        }
        "let*" => {
            // second binding uses the first
            let body = build(ctx, chain, level + 1, &inner_scope);
            E::Let(LetKind::LetStar, vec![(nx.clone(), ex), (ny, E::prim("c", vec![E::Var(nx), ey]))], Box::new(body))
        }
        "assign" | "assign-inline" | "assign-lambda" => {
            let kind = match BINDERS[b] {
                "assign" => AssignKind::Plain,
                "assign-inline" => AssignKind::Inline,
                _ => AssignKind::Lambda,
            };
            let body = build(ctx, chain, level + 1, &inner_scope);
            // written out of dependency order when the policy keeps names distinct
            let b1 = (Pat::Name(nx.clone()), ex);
            let b2 = (Pat::Name(ny.clone()), if ctx.policy == NamePolicy::Fresh { E::prim("c", vec![E::Var(nx.clone()), ey]) } else { ey });
            let bs = if ctx.policy == NamePolicy::Fresh && variant == 1 { vec![b2, b1] } else { vec![b1, b2] };
            E::Assign(kind, bs, Box::new(body))
        }
        "if-branch" => {
            // a binder-free level: the continuation sits in one branch of an if, a raise in the other
            let body = build(ctx, chain, level + 1, scope);
            let cond = E::prim("l", vec![E::prim("c", vec![E::Var(scope[0].clone()), E::int(1)])]);
            if variant == 0 {
                E::If(Box::new(cond), Box::new(body), Box::new(E::prim("x", vec![E::int(13)])))
            } else {
                E::If(Box::new(E::prim("not", vec![cond])), Box::new(E::prim("x", vec![E::int(13)])), Box::new(body))
            }
        }
        "macro" => {
            // template macro wrapping the continuation: (M <expr-x> <continuation>) -> (c P Q)-free passthrough
            // the macro returns (c (f (list P)) Q) so both argument forms are evaluated in the caller's scope
            let body = build(ctx, chain, level + 1, scope);
            let mname = format!("M{}", level);
            ctx.helpers.push(Helper::Macro {
                name: mname.clone(),
                params: vec!["P".to_string(), "Q".to_string()],
                template: if variant == 0 { E::prim("c", vec![E::v("P"), E::v("Q")]) } else { E::List(vec![E::v("Q"), E::v("P")]) },
            });
            E::MacroCall(mname, vec![ex, body])
        }
        kind => {
            // function-like binders: the body sees only its own parameters, so every visible name is passed along
            let mut seen: Vec<String> = vec![];
            for n in scope.iter().rev() {
                if !seen.contains(n) && *n != nx && *n != ny {
                    seen.push(n.clone());
                }
            }
            seen.reverse();
            let mut pnames: Vec<String> = vec![nx.clone(), ny.clone()];
            pnames.extend(seen.iter().cloned());
            let mut fscope: Vec<String> = seen.clone();
            fscope.push(nx.clone());
            fscope.push(ny.clone());
            let body = build(ctx, chain, level + 1, &fscope);
            let mut args: Vec<E> = vec![ex, ey];
            args.extend(seen.iter().map(|n| E::Var(n.clone())));
            match kind {
                "defun" | "inline" => {
                    ctx.helpers.push(Helper::Fun { name: fname.clone(), inline: kind == "inline", params: Pat::list(pnames.iter().map(|n| Pat::n(n)).collect()), body });
                    E::Call(fname, args, None)
                }
                "rest-call" => {
                    // last parameter receives the tail: (F x y &rest (list others…))
                    ctx.helpers.push(Helper::Fun { name: fname.clone(), inline: variant == 1, params: Pat::list(pnames.iter().map(|n| Pat::n(n)).collect()), body });
                    let (head, tail) = args.split_at(1);
                    E::Call(fname, head.to_vec(), Some(Box::new(E::List(tail.to_vec()))))
                }
                "destructure-call" => {
                    // ((X . Y) (@ W (others…))) style parameter list
                    let wname = format!("W{}", level);
                    let others = Pat::list(seen.iter().map(|n| Pat::n(n)).collect());
                    let params = Pat::list(vec![Pat::Cons(Box::new(Pat::n(&nx)), Box::new(Pat::n(&ny))), Pat::At(wname, Box::new(others))]);
                    ctx.helpers.push(Helper::Fun { name: fname.clone(), inline: variant == 1, params, body });
                    let a0 = E::prim("c", vec![args[0].clone(), args[1].clone()]);
                    let a1 = E::List(args[2..].to_vec());
                    E::Call(fname, vec![a0, a1], None)
                }
                "lambda" => {
                    // immediately applied lambda without captures
                    let lam = E::Lambda(vec![], Pat::list(pnames.iter().map(|n| Pat::n(n)).collect()), Box::new(body));
                    E::Apply(Box::new(lam), Box::new(E::List(args)))
                }
                _ => {
                    // lambda-capture: outer names are captured, the two new names are parameters
                    let lam = E::Lambda(seen.clone(), Pat::list(vec![Pat::n(&nx), Pat::n(&ny)]), Box::new(body));
                    E::Apply(Box::new(lam), Box::new(E::List(args[..2].to_vec())))
                }
            }
        }
    }
}

pub fn scope_chains(k: usize) -> Vec<Vec<(usize, usize)>> {
    // all chains of length 1..=k over (binder, variant)
    let units: Vec<(usize, usize)> = (0..BINDERS.len()).flat_map(|b| [(b, 0), (b, 1)]).collect();
    let mut out: Vec<Vec<(usize, usize)>> = vec![];
    let mut frontier: Vec<Vec<(usize, usize)>> = vec![vec![]];
    for _ in 0..k {
        let mut next = vec![];
        for c in &frontier {
            for u in &units {
                let mut n = c.clone();
                n.push(*u);
                next.push(n);
            }
        }
        out.extend(next.iter().cloned());
        frontier = next;
    }
    out
}

pub fn scope_case(chain: &[(usize, usize)], policy: NamePolicy, sigil: Option<&'static str>) -> Case {
    let mut ctx = Ctx { helpers: vec![], policy };
    let scope = vec!["A".to_string(), "B".to_string()];
    let body = build(&mut ctx, chain, 0, &scope);
    let prog = Prog { sigil, params: Pat::list(vec![Pat::n("A"), Pat::n("B")]), helpers: ctx.helpers, body };
    let args = vec![
        T::list(&[T::list(&[T::int(11), T::int(13)]), T::int(17)]),
        T::list(&[T::int(5), T::list(&[T::int(19), T::list(&[T::int(23)])])]),
    ];
    let mut tags: Vec<String> = chain.iter().map(|(b, v)| format!("{}{}", BINDERS[*b], v)).collect();
    tags.push(format!("{:?}", policy));
    Case { prog, args, tags }
}

// ---------------------------------------------------------------------------
// PARAMS: parameter shapes

fn pats_with_leaves(n: usize, next: &mut usize) -> Vec<Pat> {
    // all patterns with exactly n leaves; leaves are fresh names or (); internal nodes cons or (@ name cons)
    if n == 1 {
        let name = format!("P{}", *next);
        *next += 1;
        return vec![Pat::Name(name), Pat::Nil];
    }
    let mut out = vec![];
    for k in 1..n {
        let ls = pats_with_leaves(k, next);
        let rs = pats_with_leaves(n - k, next);
        for l in &ls {
            for r in &rs {
                let c = Pat::Cons(Box::new(l.clone()), Box::new(r.clone()));
                out.push(c.clone());
                let w = format!("W{}", *next);
                *next += 1;
                out.push(Pat::At(w, Box::new(c)));
            }
        }
    }
    out
}

fn rename_distinct(p: &Pat, ctr: &mut usize) -> Pat {
    match p {
        Pat::Name(_) => {
            *ctr += 1;
            Pat::Name(format!("N{}", *ctr))
        }
        Pat::Nil => Pat::Nil,
        Pat::Cons(a, b) => {
            let x = rename_distinct(a, ctr);
            let y = rename_distinct(b, ctr);
            Pat::Cons(Box::new(x), Box::new(y))
        }
        Pat::At(_, s) => {
            *ctr += 1;
            let n = format!("N{}", *ctr);
            Pat::At(n, Box::new(rename_distinct(s, ctr)))
        }
    }
}

pub fn param_patterns(max_leaves: usize, flat: &[usize]) -> Vec<Pat> {
    let mut out = vec![];
    for n in 1..=max_leaves {
        let mut c = 0;
        for p in pats_with_leaves(n, &mut c) {
            let mut k = 0;
            let q = rename_distinct(&p, &mut k);
            let mut names = vec![];
            q.names(&mut names);
            if !names.is_empty() && !out.contains(&q) {
                out.push(q);
            }
        }
    }
    for &n in flat {
        out.push(Pat::list((1..=n).map(|i| Pat::Name(format!("N{}", i))).collect()));
        if n >= 2 {
            // improper tail
            let items: Vec<Pat> = (1..n).map(|i| Pat::Name(format!("N{}", i))).collect();
            out.push(Pat::list_tail(items, Pat::Name(format!("N{}", n))));
        }
    }
    out
}

/// an argument tree matching the pattern with pairwise distinct leaf values; `style` varies leaf kinds
pub fn arg_for(p: &Pat, ctr: &mut i64, style: usize) -> T {
    match p {
        Pat::Name(_) => {
            *ctr += 1;
            let base = 1000 + *ctr * 7;
            match (style + *ctr as usize) % 3 {
                0 => T::int(base),
                1 => T::list(&[T::int(base), T::int(base + 1)]),
                _ => T::int(-base),
            }
        }
        Pat::Nil => {
            *ctr += 1;
            if style == 0 {
                T::nil()
            } else {
                T::int(5000 + *ctr)
            }
        }
        Pat::Cons(a, b) => {
            let x = arg_for(a, ctr, style);
            let y = arg_for(b, ctr, style);
            T::p(x, y)
        }
        Pat::At(_, s) => arg_for(s, ctr, style),
    }
}

/// the `-if` kinds put the observer in both arms of a conditional inside the function (every `if` re-creates the
/// function's environment); they are generated for parameter shapes with an (@ name pattern) capture, whose
/// whole sub-value - including members beyond the sub-pattern - is observable
pub const PARAM_KINDS: [&str; 9] = ["main", "defun-rest", "inline-rest", "lambda", "defun-positional", "inline-positional", "defun-rest-if", "inline-rest-if", "main-if"];

/// a () leaf that is not the terminator of the top-level list (an ignored argument position)
fn pat_has_interior_nil(p: &Pat, top_spine: bool) -> bool {
    match p {
        Pat::Nil => !top_spine,
        Pat::Name(_) => false,
        Pat::At(_, s) => pat_has_interior_nil(s, false),
        Pat::Cons(a, b) => pat_has_interior_nil(a, false) || pat_has_interior_nil(b, top_spine),
    }
}

fn pat_has_at(p: &Pat) -> bool {
    match p {
        Pat::At(_, _) => true,
        Pat::Cons(a, b) => pat_has_at(a) || pat_has_at(b),
        _ => false,
    }
}

/// lower-case names that are also operator / form keywords. `a`, `c` and `i` are left out: the stock
/// (non-hygienic) `if` and `list` macros expand to those operator names, so a variable of that name
/// captures the macro's operator by design in the non-strict dialects.
pub const LOOKALIKE: [&str; 8] = ["q", "r", "f", "x", "l", "quote", "qq", "unquote"];

fn rename_pat(p: &Pat, map: &dyn Fn(&str) -> String) -> Pat {
    match p {
        Pat::Name(n) => Pat::Name(map(n)),
        Pat::Nil => Pat::Nil,
        Pat::Cons(a, b) => Pat::Cons(Box::new(rename_pat(a, map)), Box::new(rename_pat(b, map))),
        Pat::At(n, s) => Pat::At(map(n), Box::new(rename_pat(s, map))),
    }
}

/// the same parameter shape with lower-case names that are also operator / form keywords
pub fn lookalike_pattern(p: &Pat, rot: usize) -> Option<Pat> {
    let mut names = vec![];
    p.names(&mut names);
    if names.len() > LOOKALIKE.len() {
        return None;
    }
    let names2 = names.clone();
    Some(rename_pat(p, &move |n: &str| {
        let i = names2.iter().position(|x| x == n).unwrap();
        LOOKALIKE[(i + rot) % LOOKALIKE.len()].to_string()
    }))
}

pub fn params_case(p: &Pat, kind: &str, sigil: Option<&'static str>) -> Option<Case> {
    let mut names = vec![];
    p.names(&mut names);
    let obs = observer(200, &names);
    let mut c1 = 0;
    let mut c2 = 0;
    let a1 = arg_for(p, &mut c1, 0);
    let a2 = arg_for(p, &mut c2, 1);
    // a "short" valuation: drop the last element of a proper top-level list
    let mut args = vec![a1.clone(), a2];
    if let T::P(_, _) = &a1 {
        let mut items = vec![];
        let mut cur = &a1;
        while let T::P(x, y) = cur {
            items.push((**x).clone());
            cur = y;
        }
        if items.len() >= 2 && cur.is_nil() {
            items.pop();
            args.push(T::list(&items));
        }
    }
    let whole = Pat::n("ARGS");
    let prog = match kind {
        "main" => Prog { sigil, params: p.clone(), helpers: vec![], body: obs },
        "defun-rest" | "inline-rest" => Prog {
            sigil,
            params: whole,
            helpers: vec![Helper::Fun { name: "F".to_string(), inline: kind == "inline-rest", params: p.clone(), body: obs }],
            body: E::Call("F".to_string(), vec![], Some(Box::new(E::v("ARGS")))),
        },
        "main-if" => {
            if !(pat_has_at(p) || pat_has_interior_nil(p, true)) || names.is_empty() {
                return None;
            }
            let cond = E::prim("l", vec![E::Var(names[names.len() - 1].clone())]);
            Prog { sigil, params: p.clone(), helpers: vec![], body: E::If(Box::new(cond), Box::new(observer(201, &names)), Box::new(observer(202, &names))) }
        }
        "defun-rest-if" | "inline-rest-if" => {
            if !(pat_has_at(p) || pat_has_interior_nil(p, true)) || names.is_empty() {
                return None;
            }
            let cond = E::prim("l", vec![E::Var(names[names.len() - 1].clone())]);
            let body = E::If(Box::new(cond), Box::new(observer(201, &names)), Box::new(observer(202, &names)));
            Prog {
                sigil,
                params: whole,
                helpers: vec![Helper::Fun { name: "F".to_string(), inline: kind == "inline-rest-if", params: p.clone(), body }],
                body: E::Call("F".to_string(), vec![], Some(Box::new(E::v("ARGS")))),
            }
        }
        "lambda" => Prog { sigil, params: whole, helpers: vec![], body: E::Apply(Box::new(E::Lambda(vec![], p.clone(), Box::new(obs))), Box::new(E::v("ARGS"))) },
        "defun-positional" | "inline-positional" => {
            // only for proper flat lists of names: main takes the same number of parameters and passes them on
            let mut items = vec![];
            let mut cur = p;
            loop {
                match cur {
                    Pat::Cons(a, b) => {
                        if let Pat::Name(n) = &**a {
                            items.push(n.clone());
                        } else {
                            return None;
                        }
                        cur = b;
                    }
                    Pat::Nil => break,
                    _ => return None,
                }
            }
            let mains: Vec<String> = items.iter().map(|n| format!("M{}", &n[1..])).collect();
            Prog {
                sigil,
                params: Pat::list(mains.iter().map(|n| Pat::n(n)).collect()),
                helpers: vec![Helper::Fun { name: "F".to_string(), inline: kind == "inline-positional", params: p.clone(), body: obs }],
                body: E::Call("F".to_string(), mains.iter().map(|n| E::Var(n.clone())).collect(), None),
            }
        }
        _ => return None,
    };
    Some(Case { prog, args, tags: vec![format!("params/{}", kind), format!("leaves{}", names.len().min(9))] })
}

// ---------------------------------------------------------------------------
// OPLIT: operators and literals in every position

pub fn literals() -> Vec<E> {
    let mut v = vec![];
    for i in [0i64, 1, -1, 127, 128, 255, 256, -128, -129, 32767, 32768, 1 << 31, -(1 << 31)] {
        v.push(E::int(i));
    }
    // big decimals
    for (txt, hexv) in [("18446744073709551616", "010000000000000000"), ("-18446744073709551617", "feffffffffffffffff")] {
        v.push(E::Lit(txt.to_string(), T::A(hex::decode(hexv).unwrap())));
    }
    for h in ["00", "0000", "00ff", "ff", "ffff", "0080", "80", "7f", "01", "0001", "deadbeef", "00000000000000000000000000000000000000000000000000000000000000ff"] {
        v.push(E::Lit(format!("0x{}", h), T::A(hex::decode(h).unwrap())));
    }
    for (txt, val) in [("\"hello\"", "hello"), ("\"a b\"", "a b"), ("'single'", "single"), ("\"it's\"", "it's"), ("\"\"", "")] {
        v.push(E::Lit(txt.to_string(), T::A(val.as_bytes().to_vec())));
    }
    v
}

pub fn value_ops() -> Vec<(&'static str, usize)> {
    vec![("c", 2), ("f", 1), ("r", 1), ("l", 1), ("=", 2), (">s", 2), ("sha256", 2), ("substr", 3), ("strlen", 1), ("concat", 2), ("+", 2), ("-", 2), ("*", 2), ("divmod", 2), (">", 2), ("ash", 2), ("lsh", 2), ("logand", 2), ("logior", 2), ("logxor", 2), ("lognot", 1), ("not", 1), ("any", 2), ("all", 2), ("modpow", 3), ("%", 2)]
}

pub const OPLIT_POSITIONS: [&str; 8] = ["main-body", "function-argument", "defconst", "macro-argument", "let-binding", "inline-argument", "function-body", "inline-body"];

fn place(e: E, pos: &str, sigil: Option<&'static str>, tag: &str) -> Case {
    let params = Pat::list(vec![Pat::n("A"), Pat::n("B")]);
    let args = vec![T::list(&[T::int(300), T::int(7)]), T::list(&[T::int(-5), T::int(3)]), T::list(&[T::a(b"hello"), T::int(2)])];
    let (helpers, body) = match pos {
        "main-body" => (vec![], E::List(vec![e, E::v("A")])),
        "function-argument" => (vec![Helper::Fun { name: "F".into(), inline: false, params: Pat::list(vec![Pat::n("X"), Pat::n("Y")]), body: E::List(vec![E::v("Y"), E::v("X")]) }], E::call("F", vec![e, E::v("A")])),
        "inline-argument" => (vec![Helper::Fun { name: "F".into(), inline: true, params: Pat::list(vec![Pat::n("X"), Pat::n("Y")]), body: E::List(vec![E::v("Y"), E::v("X"), E::v("X")]) }], E::call("F", vec![e, E::v("A")])),
        "function-body" | "inline-body" => {
            // the expression sits inside a function whose parameters are named like the main program's
            (vec![Helper::Fun { name: "F".into(), inline: pos == "inline-body", params: Pat::list(vec![Pat::n("A"), Pat::n("B")]), body: E::List(vec![e, E::v("A")]) }], E::call("F", vec![E::v("A"), E::v("B")]))
        }
        "defconst" => (vec![Helper::Const { name: "K".into(), body: e }], E::List(vec![E::v("K"), E::v("A")])),
        "macro-argument" => (vec![Helper::Macro { name: "M".into(), params: vec!["P".into(), "Q".into()], template: E::List(vec![E::v("Q"), E::v("P")]) }], E::MacroCall("M".into(), vec![e, E::v("A")])),
        _ => (vec![], E::Let(LetKind::Let, vec![("X".into(), e)], Box::new(E::List(vec![E::v("X"), E::v("A")])))),
    };
    Case { prog: Prog { sigil, params, helpers, body }, args, tags: vec![format!("oplit/{}", pos), tag.to_string()] }
}

pub fn oplit_cases(sigil: Option<&'static str>) -> Vec<Case> {
    let mut out = vec![];
    let lits = literals();
    for pos in OPLIT_POSITIONS {
        // every literal alone
        for l in &lits {
            out.push(place(l.clone(), pos, sigil, "literal"));
        }
        // every operator on parameters and on literal pairs
        for (op, n) in value_ops() {
            if pos == "defconst" {
                // closed expressions only
                let a: Vec<E> = [E::int(300), E::int(7), E::int(2)].into_iter().take(n).collect();
                let a = if op == "f" || op == "r" { vec![E::Quote(T::list(&[T::int(4), T::int(5)]))] } else if op == "substr" { vec![E::Lit("\"hello\"".into(), T::a(b"hello")), E::int(1), E::int(3)] } else { a };
                out.push(place(E::Prim(op.to_string(), a), pos, sigil, &format!("op:{}", op)));
                continue;
            }
            let pa: Vec<E> = match n {
                1 => vec![E::v("A")],
                2 => vec![E::prim("f", vec![E::v("A")]), E::prim("f", vec![E::prim("r", vec![E::v("A")])])],
                _ => vec![E::prim("f", vec![E::v("A")]), E::int(1), E::int(3)],
            };
            out.push(place(E::Prim(op.to_string(), pa), pos, sigil, &format!("op:{}", op)));
            let la: Vec<E> = [E::int(300), E::int(-7), E::int(5)].into_iter().take(n).collect();
            let la = if op == "f" || op == "r" || op == "l" { vec![E::Quote(T::list(&[T::int(4), T::int(5)]))] } else if op == "substr" { vec![E::Lit("\"hello\"".into(), T::a(b"hello")), E::int(1), E::int(3)] } else if op == "ash" || op == "lsh" { vec![E::int(300), E::int(3)] } else { la };
            out.push(place(E::Prim(op.to_string(), la), pos, sigil, &format!("opconst:{}", op)));
        }
        // quoted data and quoted symbols, including ones equal to a bound name
        out.push(place(E::Quote(T::list(&[T::int(1), T::list(&[T::int(2), T::int(3)])])), pos, sigil, "quote-data"));
        if pos != "defconst" {
            out.push(place(E::QuoteSym("A".into()), pos, sigil, "quote-bound-symbol"));
            out.push(place(E::QuoteSym("ZZ".into()), pos, sigil, "quote-free-symbol"));
        }
    }
    out
}

// ---------------------------------------------------------------------------
// DATA: quoted constants whose payload looks like code (operator numbers heading short lists).
// Every pass that walks emitted code (path folding, constant folding, the classic post-optimiser,
// CSE) must leave quoted payloads alone, whatever they look like.

pub fn lookalike_payloads(thorough: bool) -> Vec<T> {
    let i = T::int;
    let rows_all: Vec<T> = vec![
        T::list(&[i(5), i(100)]),
        T::list(&[i(6), i(200)]),
        T::p(i(1), i(100)),
        T::list(&[i(2), i(100), i(200)]),
        T::list(&[i(4), i(100), i(200)]),
        T::list(&[i(5), i(1)]),
        i(7),
        T::list(&[i(1), i(100)]),
        T::list(&[i(2), T::p(i(1), i(100)), i(1)]),
        T::list(&[i(3), i(100), i(200), i(300)]),
        T::list(&[i(6), i(2)]),
        T::list(&[i(100)]),
        T::list(&[i(5), T::list(&[i(6), i(100)])]),
        T::list(&[i(1)]),
        T::list(&[i(2)]),
    ];
    let rows: Vec<T> = if thorough { rows_all } else { rows_all.iter().take(7).cloned().chain(std::iter::once(T::list(&[i(1)]))).collect() };
    let mut out = vec![];
    for r in &rows {
        out.push(r.clone());
    }
    for (ia, a) in rows.iter().enumerate() {
        for (ib, b) in rows.iter().enumerate() {
            out.push(T::list(&[a.clone(), b.clone()]));
            // conses of two rows: all of them in the thorough tier, those involving the atom row or (1 . 100) in the quick tier
            if thorough || ia == 6 || ib == 6 || ia == 2 || ib == 2 {
                out.push(T::p(a.clone(), b.clone()));
            }
        }
    }
    if thorough {
        for a in rows.iter().take(7) {
            for b in rows.iter().take(7) {
                for c in rows.iter().take(7) {
                    out.push(T::list(&[a.clone(), b.clone(), c.clone()]));
                }
            }
        }
    }
    out.sort();
    out.dedup();
    out
}

pub fn lookalike_cases(sigil: Option<&'static str>, thorough: bool, positions: &[&str]) -> Vec<Case> {
    let mut out = vec![];
    for (k, d) in lookalike_payloads(thorough).into_iter().enumerate() {
        for pos in positions {
            let mut c = place(E::Quote(d.clone()), pos, sigil, &format!("payload{}", k));
            c.tags[0] = format!("data/{}", pos);
            out.push(c);
        }
        // the quoted constant as the WHOLE body of the main program / of a function
        let params = Pat::list(vec![Pat::n("A"), Pat::n("B")]);
        let args = vec![T::list(&[T::int(300), T::int(7)])];
        out.push(Case { prog: Prog { sigil, params: params.clone(), helpers: vec![], body: E::Quote(d.clone()) }, args: args.clone(), tags: vec!["data/bare-main-body".into(), format!("payload{}", k)] });
        out.push(Case { prog: Prog { sigil, params: params.clone(), helpers: vec![Helper::Fun { name: "F".into(), inline: false, params: Pat::list(vec![Pat::n("X")]), body: E::Quote(d.clone()) }], body: E::List(vec![E::call("F", vec![E::v("A")]), E::v("B")]) }, args, tags: vec!["data/bare-function-body".into(), format!("payload{}", k)] });
    }
    out
}

// ---------------------------------------------------------------------------
// CALLS: call graphs over <= 3 helpers, recursion, rest arguments, arity mismatches

pub fn calls_cases(sigil: Option<&'static str>, max_helpers: usize) -> Vec<Case> {
    let mut out = vec![];
    let params = Pat::list(vec![Pat::n("A"), Pat::n("B")]);
    let args = vec![T::list(&[T::list(&[T::int(1), T::int(2), T::int(3)]), T::int(10)]), T::list(&[T::nil(), T::int(4)]), T::list(&[T::list(&[T::int(7)]), T::list(&[T::int(8), T::int(9)])])];
    // recursion on a decreasing list: len / sum / map with defun; inline helper inside
    for inline_helper in [false, true] {
        let h1 = Helper::Fun { name: "INC".into(), inline: inline_helper, params: Pat::list(vec![Pat::n("X"), Pat::n("K")]), body: E::prim("+", vec![E::v("X"), E::v("K")]) };
        let h2 = Helper::Fun {
            name: "MAPINC".into(),
            inline: false,
            params: Pat::list(vec![Pat::n("L"), Pat::n("K")]),
            body: E::If(Box::new(E::v("L")), Box::new(E::prim("c", vec![E::call("INC", vec![E::prim("f", vec![E::v("L")]), E::v("K")]), E::call("MAPINC", vec![E::prim("r", vec![E::v("L")]), E::v("K")])])), Box::new(E::Quote(T::nil()))),
        };
        out.push(Case { prog: Prog { sigil, params: params.clone(), helpers: vec![h1, h2], body: E::call("MAPINC", vec![E::v("A"), E::v("B")]) }, args: args.clone(), tags: vec!["calls/recursion".into(), format!("inline-helper:{}", inline_helper)] });
    }
    // mutual recursion
    let ev = Helper::Fun { name: "EVENLEN".into(), inline: false, params: Pat::list(vec![Pat::n("L")]), body: E::If(Box::new(E::v("L")), Box::new(E::call("ODDLEN", vec![E::prim("r", vec![E::v("L")])])), Box::new(E::int(1))) };
    let od = Helper::Fun { name: "ODDLEN".into(), inline: false, params: Pat::list(vec![Pat::n("L")]), body: E::If(Box::new(E::v("L")), Box::new(E::call("EVENLEN", vec![E::prim("r", vec![E::v("L")])])), Box::new(E::Quote(T::nil()))) };
    out.push(Case { prog: Prog { sigil, params: params.clone(), helpers: vec![ev, od], body: E::List(vec![E::call("EVENLEN", vec![E::v("A")]), E::v("B")]) }, args: args.clone(), tags: vec!["calls/mutual-recursion".into()] });
    // constant-argument and zero-argument calls inside helpers (the constant-call folder)
    for inline_k in [false, true] {
        let k = Helper::Fun { name: "K".into(), inline: inline_k, params: Pat::Nil, body: E::int(5) };
        let f = Helper::Fun { name: "F".into(), inline: false, params: Pat::list(vec![Pat::n("X")]), body: E::prim("+", vec![E::v("X"), E::int(1)]) };
        let g = Helper::Fun { name: "G".into(), inline: false, params: Pat::list(vec![Pat::n("Y")]), body: E::List(vec![E::v("Y"), E::call("K", vec![]), E::call("F", vec![E::int(1)]), E::call("F", vec![E::call("K", vec![])])]) };
        out.push(Case { prog: Prog { sigil, params: params.clone(), helpers: vec![k, f, g], body: E::call("G", vec![E::v("B")]) }, args: args.clone(), tags: vec!["calls/constant-calls-in-helper".into(), format!("inline-k:{}", inline_k)] });
    }
    // constant positional arguments together with a constant &rest tail (the constant-call folder sees both)
    for inline in [false, true] {
        for in_helper in [false, true] {
            let f = Helper::Fun { name: "F".into(), inline, params: Pat::list_tail(vec![Pat::n("P"), Pat::n("Q")], Pat::n("R")), body: E::List(vec![E::int(9), E::v("P"), E::v("Q"), E::v("R")]) };
            let g4 = Helper::Fun { name: "S".into(), inline, params: Pat::list(vec![Pat::n("P"), Pat::n("Q"), Pat::n("R"), Pat::n("T")]), body: E::prim("+", vec![E::prim("*", vec![E::v("P"), E::int(1000)]), E::prim("+", vec![E::prim("*", vec![E::v("Q"), E::int(100)]), E::prim("+", vec![E::prim("*", vec![E::v("R"), E::int(10)]), E::v("T")])])]) };
            let tails: Vec<(&str, E)> = vec![
                ("quoted-list", E::Quote(T::list(&[T::int(3), T::int(4)]))),
                ("quoted-nil", E::Quote(T::nil())),
                ("cons-of-constants", E::prim("c", vec![E::int(3), E::Quote(T::list(&[T::int(4)]))])),
                ("list-macro", E::List(vec![E::int(3), E::int(4)])),
            ];
            for (tn, tail) in tails {
                let call_f = E::Call("F".into(), vec![E::int(1), E::int(2)], Some(Box::new(tail.clone())));
                let call_s = E::Call("S".into(), vec![E::int(1), E::int(2)], Some(Box::new(tail.clone())));
                let (helpers, body) = if in_helper {
                    (vec![f.clone(), g4.clone(), Helper::Fun { name: "W".into(), inline: false, params: Pat::list(vec![Pat::n("Z")]), body: E::List(vec![E::v("Z"), call_f, call_s]) }], E::call("W", vec![E::v("B")]))
                } else {
                    (vec![f.clone(), g4.clone()], E::List(vec![E::v("B"), call_f, call_s]))
                };
                out.push(Case { prog: Prog { sigil, params: params.clone(), helpers, body }, args: args.clone(), tags: vec!["calls/constant-args-with-constant-rest-tail".into(), format!("{}-{}-{}", if inline { "inline" } else { "defun" }, if in_helper { "in-helper" } else { "in-main" }, tn)] });
            }
        }
    }
    // all kind assignments for a chain H1 -> H2 -> H3 (acyclic), each defun or inline, with a &rest tail at each possible call
    let n = max_helpers.min(3);
    for kinds in 0..(1u32 << n) {
        for rest_at in 0..=n {
            let mut helpers = vec![];
            for i in 0..n {
                let name = format!("H{}", i);
                let inline = (kinds >> i) & 1 == 1;
                let body = if i + 1 < n {
                    let callee = format!("H{}", i + 1);
                    if rest_at == i + 1 {
                        E::Call(callee, vec![E::prim("c", vec![E::v("P"), E::int(i as i64)])], Some(Box::new(E::v("Q"))))
                    } else {
                        E::Call(callee, vec![E::prim("c", vec![E::v("P"), E::int(i as i64)]), E::prim("f", vec![E::v("Q")]), E::prim("f", vec![E::prim("r", vec![E::v("Q")])])], None)
                    }
                } else {
                    E::List(vec![E::v("P"), E::v("Q"), E::v("R")])
                };
                let params = if i == 0 { Pat::list(vec![Pat::n("P"), Pat::n("Q")]) } else { Pat::list(vec![Pat::n("P"), Pat::n("Q"), Pat::n("R")]) };
                // H0 takes (P Q); others (P Q R): H_{i} for i>0 receives Q,R from the list Q of its caller
                let body = if i == 0 && n == 1 { E::List(vec![E::v("P"), E::v("Q")]) } else { body };
                helpers.push(Helper::Fun { name, inline, params, body });
            }
            let chain_args = vec![T::list(&[
                T::list(&[T::list(&[T::list(&[T::int(1), T::int(2)]), T::list(&[T::int(3), T::int(4)])]), T::list(&[T::list(&[T::int(5), T::int(6)]), T::list(&[T::int(7), T::int(8)])])]),
                T::int(10),
            ])];
            let main = if rest_at == 0 { E::Call("H0".into(), vec![E::v("B")], Some(Box::new(E::List(vec![E::v("A")])))) } else { E::call("H0", vec![E::v("B"), E::v("A")]) };
            out.push(Case { prog: Prog { sigil, params: params.clone(), helpers, body: main }, args: chain_args, tags: vec![format!("calls/chain{}", n), format!("kinds{:03b}", kinds), format!("rest-at{}", rest_at)] });
        }
    }
    // inline with &rest and missing positional arguments (the tail supplies them)
    for inline in [false, true] {
        for nparams in 1..=4usize {
            for given in 0..=nparams {
                let pn: Vec<String> = (0..nparams).map(|i| format!("P{}", i)).collect();
                let f = Helper::Fun { name: "F".into(), inline, params: Pat::list(pn.iter().map(|n| Pat::n(n)).collect()), body: E::List(pn.iter().map(|n| E::Var(n.clone())).collect()) };
                let given_args: Vec<E> = (0..given).map(|i| E::prim("+", vec![E::v("B"), E::int(i as i64)])).collect();
                let body = E::Call("F".into(), given_args, Some(Box::new(E::v("A"))));
                let a = vec![T::list(&[T::list(&[T::list(&[T::int(30), T::int(31)]), T::list(&[T::int(40), T::int(41)]), T::int(5), T::int(6)]), T::int(2)])];
                out.push(Case { prog: Prog { sigil, params: params.clone(), helpers: vec![f], body }, args: a, tags: vec![format!("calls/rest-missing/{}", if inline { "inline" } else { "defun" }), format!("params{}-given{}", nparams, given)] });
            }
        }
    }
    out
}

// ---------------------------------------------------------------------------
// KERNEL: all expressions of depth <= 2 over a small operator set, in three positions

pub fn kernel_exprs(depth: usize) -> Vec<E> {
    let leaves = vec![E::v("A"), E::v("B"), E::int(1), E::Quote(T::list(&[T::int(2), T::int(3)]))];
    let mut cur = leaves.clone();
    for _ in 0..depth {
        let mut next = leaves.clone();
        let pool = cur.clone();
        // keep the pool for binary ops small: leaves plus the first few composite forms
        let small: Vec<E> = pool.iter().take(10).cloned().collect();
        for a in &pool {
            next.push(E::prim("f", vec![a.clone()]));
            next.push(E::prim("r", vec![a.clone()]));
        }
        for a in &small {
            for b in &small {
                next.push(E::prim("c", vec![a.clone(), b.clone()]));
                next.push(E::prim("+", vec![a.clone(), b.clone()]));
                next.push(E::prim("=", vec![a.clone(), b.clone()]));
                next.push(E::List(vec![a.clone(), b.clone(), a.clone()]));
                next.push(E::If(Box::new(a.clone()), Box::new(b.clone()), Box::new(E::prim("x", vec![a.clone()]))));
                next.push(E::If(Box::new(a.clone()), Box::new(E::prim("c", vec![b.clone(), b.clone()])), Box::new(E::prim("c", vec![b.clone(), a.clone()]))));
            }
        }
        next.dedup();
        cur = next;
    }
    cur
}

pub fn kernel_case(e: &E, pos: usize, sigil: Option<&'static str>) -> Case {
    let params = Pat::list(vec![Pat::n("A"), Pat::n("B")]);
    let args = vec![T::list(&[T::list(&[T::int(6), T::int(7)]), T::int(8)]), T::list(&[T::nil(), T::list(&[T::int(9)])]), T::list(&[T::int(1), T::int(1)])];
    let (helpers, body) = match pos {
        0 => (vec![], e.clone()),
        1 => (vec![Helper::Fun { name: "F".into(), inline: false, params: params.clone(), body: e.clone() }], E::call("F", vec![E::v("A"), E::v("B")])),
        _ => (vec![Helper::Fun { name: "F".into(), inline: true, params: params.clone(), body: e.clone() }], E::call("F", vec![E::v("A"), E::v("B")])),
    };
    Case { prog: Prog { sigil, params, helpers, body }, args, tags: vec![format!("kernel/pos{}", pos)] }
}

// ---------------------------------------------------------------------------
// NESTED: embedded (mod ...) forms applied with `a`. The nested module is a closed program with its
// own helpers; its helper names may coincide with the outer program's.

pub fn nested_cases(sigil: Option<&'static str>) -> Vec<Case> {
    let mut out = vec![];
    let params = Pat::list(vec![Pat::n("A"), Pat::n("B")]);
    let args = vec![T::list(&[T::int(5), T::int(7)]), T::list(&[T::list(&[T::int(1), T::int(2)]), T::int(-3)])];
    // outer helper kinds
    let outer_kinds = ["none", "defun", "inline", "defconstant"];
    // inner helper kinds; "same-name" gives the inner function the outer function's name with a different body
    let inner_kinds = ["none", "defun", "inline", "same-name-defun", "defconstant", "two-defuns", "computed-defconst"];
    let positions = ["main-body", "argument-of-outer-call", "inside-outer-defun", "let-binding"];
    for ok in outer_kinds {
        for ik in inner_kinds {
            for pos in positions {
                if (pos == "argument-of-outer-call" || pos == "inside-outer-defun") && ok != "defun" && ok != "inline" {
                    continue;
                }
                if ik == "same-name-defun" && ok != "defun" && ok != "inline" {
                    continue;
                }
                let mut helpers = vec![];
                match ok {
                    "defun" | "inline" => helpers.push(Helper::Fun { name: "DBL".into(), inline: ok == "inline", params: Pat::list(vec![Pat::n("P")]), body: E::List(vec![E::int(2), E::v("P"), E::v("P")]) }),
                    "defconstant" => helpers.push(Helper::Constant { name: "K".into(), datum: T::int(99) }),
                    _ => {}
                }
                let outer_val = |e: E| -> E {
                    match ok {
                        "defun" | "inline" => E::call("DBL", vec![e]),
                        "defconstant" => E::List(vec![E::v("K"), e]),
                        _ => e,
                    }
                };
                // the nested module: (mod (Y Z) <helpers> body)
                let (ihelpers, ibody): (Vec<Helper>, E) = match ik {
                    "defun" | "inline" => (vec![Helper::Fun { name: "INC".into(), inline: ik == "inline", params: Pat::list(vec![Pat::n("Q")]), body: E::List(vec![E::int(1), E::v("Q")]) }], E::List(vec![E::call("INC", vec![E::v("Y")]), E::v("Z")])),
                    "same-name-defun" => (vec![Helper::Fun { name: "DBL".into(), inline: false, params: Pat::list(vec![Pat::n("Q")]), body: E::List(vec![E::int(3), E::v("Q")]) }], E::List(vec![E::call("DBL", vec![E::v("Y")]), E::v("Z")])),
                    "defconstant" => (vec![Helper::Constant { name: "IK".into(), datum: T::int(55) }], E::List(vec![E::v("IK"), E::v("Y"), E::v("Z")])),
                    "computed-defconst" => (vec![Helper::Const { name: "IK".into(), body: E::prim("+", vec![E::int(50), E::int(5)]) }], E::List(vec![E::v("IK"), E::v("Y"), E::v("Z")])),
                    "two-defuns" => (
                        vec![
                            Helper::Fun { name: "INC".into(), inline: false, params: Pat::list(vec![Pat::n("Q")]), body: E::List(vec![E::int(1), E::v("Q")]) },
                            Helper::Fun { name: "WRAP".into(), inline: false, params: Pat::list(vec![Pat::n("Q"), Pat::n("R")]), body: E::List(vec![E::call("INC", vec![E::v("Q")]), E::v("R")]) },
                        ],
                        E::call("WRAP", vec![E::v("Y"), E::v("Z")]),
                    ),
                    _ => (vec![], E::List(vec![E::int(4), E::v("Z"), E::v("Y")])),
                };
                let inner = Prog { sigil: None, params: Pat::list(vec![Pat::n("Y"), Pat::n("Z")]), helpers: ihelpers, body: ibody };
                let apply = |a: E, b: E| E::ApplyMod(Box::new(inner.clone()), Box::new(E::List(vec![a, b])));
                let body = match pos {
                    "main-body" => E::List(vec![apply(outer_val(E::v("A")), E::v("B")), E::v("A")]),
                    "argument-of-outer-call" => E::List(vec![E::call("DBL", vec![apply(E::v("A"), E::v("B"))]), E::v("B")]),
                    "inside-outer-defun" => {
                        helpers.push(Helper::Fun { name: "OUTER".into(), inline: false, params: Pat::list(vec![Pat::n("U"), Pat::n("V")]), body: E::List(vec![apply(E::call("DBL", vec![E::v("U")]), E::v("V")), E::v("U")]) });
                        E::call("OUTER", vec![E::v("B"), E::v("A")])
                    }
                    _ => E::Let(LetKind::Let, vec![("W".into(), apply(outer_val(E::v("B")), E::v("A")))], Box::new(E::List(vec![E::v("W"), E::v("A")]))),
                };
                out.push(Case { prog: Prog { sigil, params: params.clone(), helpers, body }, args: args.clone(), tags: vec![format!("nested/{}", pos), format!("outer:{}-inner:{}", ok, ik)] });
            }
        }
    }
    out
}

// ---------------------------------------------------------------------------
// HELPERS-N: many helpers in one module (the layout of the helper environment tree depends on their
// number and kinds), each with a distinguishable result; and lambdas with k captured variables.

pub fn many_helpers_cases(sigil: Option<&'static str>, max_n: usize) -> Vec<Case> {
    let mut out = vec![];
    let params = Pat::list(vec![Pat::n("A"), Pat::n("B")]);
    let args = vec![T::list(&[T::int(5), T::int(7)]), T::list(&[T::list(&[T::int(1), T::int(2)]), T::int(-3)])];
    for n in 1..=max_n {
        // pattern: which helpers are inline / constants. 0: all defuns; 1: every third inline; 2: every second a defconstant
        for mix in 0..3 {
            let mut helpers = vec![];
            let mut items = vec![];
            for i in 0..n {
                let name = format!("H{}", i);
                if mix == 2 && i % 2 == 1 {
                    helpers.push(Helper::Constant { name: name.clone(), datum: T::int(9000 + i as i64) });
                    items.push(E::Var(name));
                } else {
                    // each function also calls its predecessor function (if any), so paths to OTHER helpers are exercised inside helpers
                    let prev = (0..i).rev().find(|j| !(mix == 2 && j % 2 == 1));
                    let body = match prev {
                        Some(j) if i % 2 == 0 => E::List(vec![E::int(100 + i as i64), E::v("P"), E::call(&format!("H{}", j), vec![E::v("Q")])]),
                        _ => E::List(vec![E::int(100 + i as i64), E::v("Q"), E::v("P")]),
                    };
                    helpers.push(Helper::Fun { name: name.clone(), inline: mix == 1 && i % 3 == 2, params: Pat::list(vec![Pat::n("P"), Pat::n("Q")]), body });
                    items.push(E::call(&name, vec![E::v("A"), E::v("B")]));
                }
            }
            out.push(Case { prog: Prog { sigil, params: params.clone(), helpers, body: E::List(items) }, args: args.clone(), tags: vec![format!("helpers-n/{}", n), format!("mix{}", mix)] });
        }
    }
    // lambdas capturing k variables, applied at once and passed to a helper that applies them
    for k in 1..=4usize {
        for via_helper in [false, true] {
            let names: Vec<String> = (0..k).map(|i| format!("C{}", i)).collect();
            let binds: Vec<(String, E)> = names.iter().enumerate().map(|(i, n)| (n.clone(), E::prim("c", vec![E::int(i as i64), if i % 2 == 0 { E::v("A") } else { E::v("B") }]))).collect();
            let lam = E::Lambda(names.clone(), Pat::list(vec![Pat::n("Z")]), Box::new(E::List(std::iter::once(E::v("Z")).chain(names.iter().map(|n| E::Var(n.clone()))).collect())));
            let (helpers, use_it) = if via_helper {
                (vec![Helper::Fun { name: "APPLY1".into(), inline: false, params: Pat::list(vec![Pat::n("F"), Pat::n("V")]), body: E::Apply(Box::new(E::v("F")), Box::new(E::List(vec![E::v("V")]))) }], E::call("APPLY1", vec![lam, E::int(77)]))
            } else {
                (vec![], E::Apply(Box::new(lam), Box::new(E::List(vec![E::int(77)]))))
            };
            let body = E::Let(LetKind::Let, binds, Box::new(use_it));
            out.push(Case { prog: Prog { sigil, params: params.clone(), helpers, body }, args: args.clone(), tags: vec![format!("lambda-captures/{}", k), format!("via-helper:{}", via_helper)] });
        }
    }
    out
}

// ---------------------------------------------------------------------------
// CONSTS: compile-time constants (defconst) that depend on each other directly, or only through a
// function / inline / macro that names another constant; every order of the definitions in the source.

pub fn const_graph_cases(sigil: Option<&'static str>, max_consts: usize) -> Vec<Case> {
    fn perms(n: usize) -> Vec<Vec<usize>> {
        if n == 0 {
            return vec![vec![]];
        }
        let mut out = vec![];
        for p in perms(n - 1) {
            for pos in 0..=p.len() {
                let mut q = p.clone();
                q.insert(pos, n - 1);
                out.push(q);
            }
        }
        out
    }
    let mut out = vec![];
    let params = Pat::list(vec![Pat::n("A"), Pat::n("B")]);
    let args = vec![T::list(&[T::int(5), T::int(7)]), T::list(&[T::int(-2), T::list(&[T::int(1)])])];
    for via in ["direct", "defun", "inline", "macro", "defun-if", "inline-if", "direct-computed-base", "destructuring-assign"] {
        for n in 2..=max_consts {
            // K0 = 1000 (or a computed 999+1); K(i+1) depends on K(i) through `via`
            let computed_base = via.ends_with("-if") || via == "direct-computed-base" || via == "destructuring-assign";
            let mut hs: Vec<Helper> = vec![Helper::Const { name: "K0".into(), body: if computed_base { E::prim("+", vec![E::int(999), E::int(1)]) } else { E::int(1000) } }];
            for i in 1..n {
                let prev = format!("K{}", i - 1);
                let body = match via {
                    "direct" | "direct-computed-base" => E::prim("+", vec![E::Var(prev.clone()), E::int(i as i64)]),
                    // (assign (P Q R) (list prev i 3) (+ R (+ Q P))): a three-element destructuring inside a constant
                    "destructuring-assign" => E::Assign(
                        AssignKind::Plain,
                        vec![(Pat::list(vec![Pat::n("P"), Pat::n("Q"), Pat::n("R")]), E::List(vec![E::Var(prev.clone()), E::int(i as i64), E::int(300)]))],
                        Box::new(E::List(vec![E::v("R"), E::v("Q"), E::v("P")])),
                    ),
                    "macro" => E::MacroCall(format!("VIA{}", i), vec![E::int(i as i64)]),
                    _ => E::call(&format!("VIA{}", i), vec![E::int(i as i64)]),
                };
                hs.push(Helper::Const { name: format!("K{}", i), body });
                match via {
                    // the function mentions the constant inside the arms of a conditional
                    "defun-if" | "inline-if" => hs.push(Helper::Fun { name: format!("VIA{}", i), inline: via == "inline-if", params: Pat::list(vec![Pat::n("X")]), body: E::If(Box::new(E::v("X")), Box::new(E::prim("+", vec![E::v("X"), E::Var(prev)])), Box::new(E::Var(format!("K{}", i - 1)))) }),
                    "defun" | "inline" => hs.push(Helper::Fun { name: format!("VIA{}", i), inline: via == "inline", params: Pat::list(vec![Pat::n("X")]), body: E::prim("+", vec![E::v("X"), E::Var(prev)]) }),
                    "macro" => hs.push(Helper::Macro { name: format!("VIA{}", i), params: vec!["X".into()], template: E::prim("+", vec![E::v("X"), E::Var(prev)]) }),
                    _ => {}
                }
            }
            let body = E::List((0..n).map(|i| E::Var(format!("K{}", i))).chain(std::iter::once(E::v("A"))).collect());
            let orders = if hs.len() <= 4 { perms(hs.len()) } else { vec![(0..hs.len()).collect(), (0..hs.len()).rev().collect()] };
            for (oi, o) in orders.iter().enumerate() {
                let helpers: Vec<Helper> = o.iter().map(|i| hs[*i].clone()).collect();
                out.push(Case { prog: Prog { sigil, params: params.clone(), helpers, body: body.clone() }, args: args.clone(), tags: vec![format!("consts/{}", via), format!("n{}-order{}", n, oi)] });
            }
        }
    }
    out
}

// ---------------------------------------------------------------------------
// CSE: repeated subexpressions (some of which can raise) in conditional trees and under binders that are
// not at the root of a body - the shapes common-subexpression elimination and lifting passes look for.

pub fn cse_cases(sigil: Option<&'static str>, thorough: bool) -> Vec<Case> {
    let mut out = vec![];
    let params = Pat::list(vec![Pat::n("A"), Pat::n("B")]);
    // B is nil (G raises), a pair, or a longer list; A selects branches
    let args = vec![
        T::list(&[T::nil(), T::nil()]),
        T::list(&[T::int(1), T::nil()]),
        T::list(&[T::nil(), T::list(&[T::int(3), T::int(4)])]),
        T::list(&[T::int(1), T::list(&[T::int(3), T::int(4)])]),
    ];
    // G raises when B is an atom; it is large enough to be worth sharing
    let g = || E::prim("*", vec![E::prim("f", vec![E::v("B")]), E::prim("+", vec![E::prim("f", vec![E::v("B")]), E::int(2)])]);
    // (1) conditional trees of depth <= 2 (thorough 3) over conditions A, B with leaves G / 0
    fn trees(depth: usize, g: &dyn Fn() -> E) -> Vec<E> {
        let mut v = vec![g(), E::int(0)];
        if depth > 0 {
            let sub = trees(depth - 1, g);
            for c in ["A", "B"] {
                for t in &sub {
                    for f in &sub {
                        v.push(E::If(Box::new(E::v(c)), Box::new(t.clone()), Box::new(f.clone())));
                    }
                }
            }
        }
        v
    }
    for (k, t) in trees(2, &g).into_iter().enumerate() {
        if k < 2 {
            continue;
        }
        for in_fun in [false, true] {
            if in_fun && !thorough && k % 4 != 0 {
                continue;
            }
            let (helpers, body) = if in_fun { (vec![Helper::Fun { name: "F".into(), inline: false, params: params.clone(), body: t.clone() }], E::call("F", vec![E::v("A"), E::v("B")])) } else { (vec![], t.clone()) };
            out.push(Case { prog: Prog { sigil, params: params.clone(), helpers, body }, args: args.clone(), tags: vec![format!("cse/if-tree/{}", if in_fun { "defun" } else { "main" }), format!("tree{}", k)] });
        }
    }
    // (2) a binder with two bindings sharing a subexpression, placed in a context that is not the body root
    let shared: Vec<(&str, Box<dyn Fn(E) -> E>)> = vec![
        ("plus", Box::new(|v: E| E::prim("+", vec![v, E::int(1)]))),
        ("sha", Box::new(|v: E| E::prim("sha256", vec![v, E::int(2)]))),
        ("cons", Box::new(|v: E| E::prim("c", vec![v.clone(), v]))),
    ];
    let e0s: Vec<(&str, E)> = vec![("first-of-B", E::prim("f", vec![E::v("B")])), ("B", E::v("B"))];
    for (sn, sf) in &shared {
        for (en, e0) in &e0s {
            // quick tier: the raising base expression with `+` and `c`, the plain one with sha256
            if !thorough && ((*en == "B") != (*sn == "sha")) {
                continue;
            }
            for binder in ["assign", "assign-inline", "assign-lambda", "let*", "nested-let"] {
                for ctx in ["root", "under-c", "in-if-arm", "twice-in-list", "in-defun-under-c"] {
                    let v = || E::v("V");
                    let inner_body = E::List(vec![v(), E::v("W"), E::v("U")]);
                    let bound = match binder {
                        "assign" | "assign-inline" | "assign-lambda" => {
                            let k = match binder {
                                "assign" => AssignKind::Plain,
                                "assign-inline" => AssignKind::Inline,
                                _ => AssignKind::Lambda,
                            };
                            E::Assign(k, vec![(Pat::n("V"), e0.clone()), (Pat::n("W"), sf(v())), (Pat::n("U"), sf(v()))], Box::new(inner_body))
                        }
                        "let*" => E::Let(LetKind::LetStar, vec![("V".into(), e0.clone()), ("W".into(), sf(v())), ("U".into(), sf(v()))], Box::new(inner_body)),
                        _ => E::Let(LetKind::Let, vec![("V".into(), e0.clone())], Box::new(E::Let(LetKind::Let, vec![("W".into(), sf(v())), ("U".into(), sf(v()))], Box::new(inner_body)))),
                    };
                    let (helpers, body) = match ctx {
                        "root" => (vec![], bound),
                        "under-c" => (vec![], E::prim("c", vec![E::int(1), bound])),
                        "in-if-arm" => (vec![], E::If(Box::new(E::v("A")), Box::new(bound), Box::new(E::int(0)))),
                        "twice-in-list" => (vec![], E::List(vec![bound.clone(), bound])),
                        _ => (vec![Helper::Fun { name: "F".into(), inline: false, params: params.clone(), body: E::prim("c", vec![E::int(1), bound]) }], E::call("F", vec![E::v("A"), E::v("B")])),
                    };
                    out.push(Case { prog: Prog { sigil, params: params.clone(), helpers, body }, args: args.clone(), tags: vec![format!("cse/shared-in-binder/{}", ctx), format!("{}-{}-{}", binder, sn, en)] });
                }
            }
        }
    }
    out
}

// ---------------------------------------------------------------------------
// CONSTCOND: conditionals whose condition is a compile-time constant in various guises (literal, defconstant,
// a nested `if` on a constant selecting a nil / zero / non-nil branch, an inline function of a literal argument) -
// the shapes constant-condition folding looks for.

pub fn constcond_cases(sigil: Option<&'static str>) -> Vec<Case> {
    let mut out = vec![];
    let params = Pat::list(vec![Pat::n("A"), Pat::n("B")]);
    let args = vec![T::list(&[T::int(5), T::int(7)]), T::list(&[T::nil(), T::int(1)])];
    let consts: Vec<(&str, E)> = vec![("one", E::int(1)), ("zero", E::int(0)), ("nil", E::Quote(T::nil())), ("five", E::int(5))];
    let vals: Vec<(&str, E)> = vec![("nil", E::Quote(T::nil())), ("zero", E::int(0)), ("one", E::int(1))];
    let outer = |c: E| E::If(Box::new(c), Box::new(E::prim("+", vec![E::v("A"), E::int(100)])), Box::new(E::prim("+", vec![E::v("A"), E::int(200)])));
    let mut push = |out: &mut Vec<Case>, helpers: Vec<Helper>, cond: E, tag: String| {
        for in_fun in [false, true] {
            let (hs, body) = if in_fun {
                let mut hs = helpers.clone();
                hs.push(Helper::Fun { name: "F".into(), inline: false, params: params.clone(), body: outer(cond.clone()) });
                (hs, E::call("F", vec![E::v("A"), E::v("B")]))
            } else {
                (helpers.clone(), outer(cond.clone()))
            };
            out.push(Case { prog: Prog { sigil, params: params.clone(), helpers: hs, body }, args: args.clone(), tags: vec![format!("constcond/{}", if in_fun { "defun" } else { "main" }), tag.clone()] });
        }
    };
    for (cn, c) in &consts {
        push(&mut out, vec![], c.clone(), format!("literal-{}", cn));
        push(&mut out, vec![Helper::Constant { name: "K".into(), datum: match c { E::Lit(_, t) => t.clone(), E::Quote(t) => t.clone(), _ => T::nil() } }], E::v("K"), format!("defconstant-{}", cn));
        push(&mut out, vec![], E::prim("not", vec![c.clone()]), format!("not-{}", cn));
        for (v1n, v1) in &vals {
            for (v2n, v2) in &vals {
                if v1n == v2n {
                    continue;
                }
                push(&mut out, vec![], E::If(Box::new(c.clone()), Box::new(v1.clone()), Box::new(v2.clone())), format!("nested-if-{}-{}-{}", cn, v1n, v2n));
                push(
                    &mut out,
                    vec![Helper::Fun { name: "PICK".into(), inline: true, params: Pat::list(vec![Pat::n("S")]), body: E::If(Box::new(E::v("S")), Box::new(v1.clone()), Box::new(v2.clone())) }],
                    E::call("PICK", vec![c.clone()]),
                    format!("inline-pick-{}-{}-{}", cn, v1n, v2n),
                );
            }
        }
    }
    out
}

// ---------------------------------------------------------------------------
// LETPOS: a let / assign that is not the whole body of a function but sits in an argument, under a conditional, in
// another binding's value or in a &rest tail; the function is a defun or an inline, called positionally or with a
// &rest tail that supplies the parameters the nested let uses.

pub fn let_position_cases(sigil: Option<&'static str>) -> Vec<Case> {
    let mut out = vec![];
    let params = Pat::list(vec![Pat::n("A"), Pat::n("B")]);
    let args = vec![T::list(&[T::int(5), T::list(&[T::int(7), T::int(8), T::int(9)])]), T::list(&[T::list(&[T::int(1)]), T::list(&[T::int(2), T::list(&[T::int(3)])])])];
    for inline in [false, true] {
        for shape in ["proper", "dotted"] {
            // F (X Y Z) or F (X Y . Z)
            let fparams = if shape == "proper" { Pat::list(vec![Pat::n("X"), Pat::n("Y"), Pat::n("Z")]) } else { Pat::list_tail(vec![Pat::n("X"), Pat::n("Y")], Pat::n("Z")) };
            for binder in ["let", "assign"] {
                let bound = |body: E| -> E {
                    if binder == "let" {
                        E::Let(LetKind::Let, vec![("W".into(), E::prim("c", vec![E::v("X"), E::v("Y")]))], Box::new(body))
                    } else {
                        E::Assign(AssignKind::Plain, vec![(Pat::n("W"), E::prim("c", vec![E::v("X"), E::v("Y")]))], Box::new(body))
                    }
                };
                let inner = bound(E::List(vec![E::v("W"), E::v("Y"), E::v("Z")]));
                for pos in ["whole-body", "argument", "under-if", "binding-value", "rest-tail"] {
                    let mut helpers = vec![];
                    let body = match pos {
                        "whole-body" => inner.clone(),
                        "argument" => E::prim("c", vec![E::int(1), inner.clone()]),
                        "under-if" => E::If(Box::new(E::v("X")), Box::new(inner.clone()), Box::new(E::v("Z"))),
                        "binding-value" => E::Let(LetKind::Let, vec![("V".into(), inner.clone())], Box::new(E::List(vec![E::v("V"), E::v("Z")]))),
                        _ => {
                            helpers.push(Helper::Fun { name: "G".into(), inline: false, params: Pat::list_tail(vec![Pat::n("P")], Pat::n("Q")), body: E::List(vec![E::v("P"), E::v("Q")]) });
                            E::Call("G".into(), vec![E::v("X")], Some(Box::new(inner.clone())))
                        }
                    };
                    helpers.push(Helper::Fun { name: "F".into(), inline, params: fparams.clone(), body });
                    for call in ["positional", "rest-supplies-last", "rest-supplies-two", "rest-supplies-all"] {
                        let main = match call {
                            "positional" => E::call("F", vec![E::v("A"), E::prim("f", vec![E::v("B")]), E::prim("r", vec![E::v("B")])]),
                            "rest-supplies-last" => E::Call("F".into(), vec![E::v("A"), E::prim("f", vec![E::v("B")])], Some(Box::new(E::List(vec![E::prim("r", vec![E::v("B")])])))),
                            "rest-supplies-two" => E::Call("F".into(), vec![E::v("A")], Some(Box::new(E::v("B")))),
                            _ => E::Call("F".into(), vec![], Some(Box::new(E::prim("c", vec![E::v("A"), E::v("B")])))),
                        };
                        out.push(Case { prog: Prog { sigil, params: params.clone(), helpers: helpers.clone(), body: main }, args: args.clone(), tags: vec![format!("letpos/{}/{}", if inline { "inline" } else { "defun" }, pos), format!("{}-{}-{}", shape, binder, call)] });
                    }
                }
            }
        }
    }
    out
}

// ---------------------------------------------------------------------------
// ONE-BEFORE-NAME: a constant / parameter / call whose ONLY mention follows the literal 1 (or 2) in an argument
// list: the tail (1 K X) of (+ 1 K X) reads like the quote form (q K X).

pub fn literal_one_cases(sigil: Option<&'static str>) -> Vec<Case> {
    let mut out = vec![];
    let params = Pat::list(vec![Pat::n("A"), Pat::n("B")]);
    let args = vec![T::list(&[T::int(10), T::int(3)]), T::list(&[T::int(-4), T::int(0)])];
    for lit in [1i64, 2] {
        for computed in [false, true] {
            let k = if computed { Helper::Const { name: "K".into(), body: E::prim("+", vec![E::int(3), E::int(4)]) } } else { Helper::Constant { name: "K".into(), datum: T::int(7) } };
            let forms: Vec<(&str, E)> = vec![
                ("plus", E::prim("+", vec![E::int(lit), E::v("K"), E::v("X")])),
                ("list", E::List(vec![E::int(lit), E::v("K"), E::v("X")])),
                ("times", E::prim("*", vec![E::int(lit), E::v("K"), E::v("X")])),
                ("nested", E::prim("+", vec![E::int(lit), E::prim("-", vec![E::v("K"), E::v("X")])])),
                ("cons", E::prim("c", vec![E::int(lit), E::v("K")])),
            ];
            for (fname, f) in forms {
                for place in ["defun", "inline", "main"] {
                    let (helpers, body) = match place {
                        "main" => (vec![k.clone()], subst(&f, &["X".to_string()], &[E::v("A")])),
                        _ => (vec![k.clone(), Helper::Fun { name: "HF".into(), inline: place == "inline", params: Pat::list(vec![Pat::n("X")]), body: f.clone() }], E::call("HF", vec![E::v("A")])),
                    };
                    out.push(Case { prog: Prog { sigil, params: params.clone(), helpers, body }, args: args.clone(), tags: vec![format!("one-before-name/{}", place), format!("lit{}-{}-{}", lit, fname, if computed { "defconst" } else { "defconstant" })] });
                }
            }
        }
    }
    out
}
