//! C07 (rich <-> CLVM conversion, hashes, equality) and C09 (printers / readers).
use crate::par::{catch, par_range};
use crate::report::{Report, Stats};
use crate::subject::*;
use crate::tree::*;
use serde_json::json;
use sha2::{Digest, Sha256};
use std::collections::HashMap;
use std::hash::{Hash, Hasher};
use std::rc::Rc;
use std::time::Duration;

use chialisp::classic::clvm_tools::sha256tree::sha256tree as classic_sha256tree;
use chialisp::compiler::clvm::{convert_from_clvm_rs, convert_to_clvm_rs, sha256tree as rich_sha256tree, NewStyleIntConversion};
use chialisp::compiler::sexp::{parse_sexp, SExp};
use chialisp::compiler::srcloc::Srcloc;
use clvmr::allocator::Allocator;
use clvmr::serde::tree_hash_from_stream;

fn own_hash(t: &T) -> Vec<u8> {
    match t {
        T::A(v) => {
            let mut h = Sha256::new();
            h.update([1]);
            h.update(v);
            h.finalize().to_vec()
        }
        T::P(a, b) => {
            let mut h = Sha256::new();
            h.update([2]);
            h.update(own_hash(a));
            h.update(own_hash(b));
            h.finalize().to_vec()
        }
    }
}

fn atom_class(v: &[u8]) -> String {
    let printable = !v.is_empty() && v.iter().all(|b| (0x20..0x7f).contains(b));
    let mut tags = vec![];
    tags.push(match v.len() {
        0 => "len0",
        1 => "len1",
        2 => "len2",
        _ => "len>=3",
    });
    if printable {
        tags.push("printable");
        if v.contains(&b'\\') {
            tags.push("backslash");
        }
        if v.contains(&b'"') {
            tags.push("dquote");
        }
        if v.contains(&b'\'') {
            tags.push("squote");
        }
    } else if !v.is_empty() {
        if v[0] == 0 {
            tags.push("zero-led");
        } else if v[0] == 0xff {
            tags.push("ff-led");
        } else {
            tags.push("binary");
        }
    }
    tags.join(",")
}

fn worst_atom_class(t: &T) -> String {
    // class of the first atom in left-to-right order that is not a tiny integer
    fn go(t: &T, out: &mut Vec<String>) {
        match t {
            T::A(v) => out.push(atom_class(v)),
            T::P(a, b) => {
                go(a, out);
                go(b, out);
            }
        }
    }
    let mut v = vec![];
    go(t, &mut v);
    v.sort();
    v.dedup();
    v.join("|")
}

fn check_c07_value(st: &mut Stats, t: &T, fixed: bool) {
    st.eval();
    let mode = if fixed { "fixed" } else { "legacy" };
    let tt = t.clone();
    let r = catch(move || {
        let _g = NewStyleIntConversion::new(fixed);
        let mut a = Allocator::new();
        let n = tt.to_node(&mut a);
        let rich = convert_from_clvm_rs(&mut a, loc(), n).map_err(|e| format!("{}", e))?;
        let back = convert_to_clvm_rs(&mut a, rich.clone()).map_err(|e| format!("{}", e))?;
        let back_t = T::from_node(&a, back);
        let h_rich = rich_sha256tree(rich.clone());
        let h_classic = classic_sha256tree(&mut a, n).data().clone();
        Ok::<_, String>((back_t, h_rich, h_classic, kind_of(&rich).to_string()))
    });
    let replay = json!({"kind": "value", "hex": t.hex(), "fixed": fixed});
    match r {
        Err(p) => st.violation(&format!("convert/panic/{}", mode), format!("conversion of {} panics in {} mode: {}", t.short(), mode, p), t.leaves(), replay),
        Ok(Err(e)) => st.violation(&format!("convert/error/{}", mode), format!("conversion of {} fails in {} mode: {}", t.short(), mode, e), t.leaves(), replay),
        Ok(Ok((back, h_rich, h_classic, kind))) => {
            st.outcome(&format!("{}:{}", mode, kind));
            if back != *t {
                st.violation(
                    &format!("convert/roundtrip/{}/{}", mode, worst_atom_class(t)),
                    format!("{} mode: {} converts to rich form and back to {}", mode, t.short(), back.short()),
                    t.bytes().len(),
                    replay.clone(),
                );
            } else {
                if t.leaves() == 1 { st.nontrivial_by_index(); } else { st.nontrivial(&(fixed, t)); }
            }
            let own = own_hash(t);
            let bytes = t.bytes();
            let cons = tree_hash_from_stream(&mut std::io::Cursor::new(bytes.as_slice())).map(|h| h.to_vec());
            if cons.as_ref().ok() != Some(&own) {
                panic!("harness tree hash disagrees with clvmr on {}", t.short());
            }
            if h_rich != own {
                st.violation(&format!("hash/rich/{}/{}", mode, worst_atom_class(t)), format!("{} mode: rich-form tree hash of {} is {}, consensus {}", mode, t.short(), hex::encode(&h_rich), hex::encode(&own)), t.bytes().len(), replay.clone());
            }
            if h_classic != own {
                st.violation(&format!("hash/classic/{}", worst_atom_class(t)), format!("classic tree hash of {} is {}, consensus {}", t.short(), hex::encode(&h_classic), hex::encode(&own)), t.bytes().len(), replay);
            }
            if t.leaves() > 1 || matches!(t, T::A(v) if v.len() >= 2) {
                st.sample(json!({"value": t.short(), "mode": mode, "rich_kind": kind, "tree_hash": hex::encode(&own)}));
            }
        }
    }
}

fn kind_of(s: &SExp) -> &'static str {
    match s {
        SExp::Nil(_) => "Nil",
        SExp::Cons(_, _, _) => "Cons",
        SExp::Integer(_, _) => "Integer",
        SExp::QuotedString(_, b'x', _) => "Hex",
        SExp::QuotedString(_, _, _) => "String",
        SExp::Atom(_, _) => "Atom",
    }
}

fn std_hash(s: &SExp) -> u64 {
    let mut h = std::collections::hash_map::DefaultHasher::new();
    s.hash(&mut h);
    h.finish()
}

fn read_modern(text: &str) -> Result<Vec<Rc<SExp>>, String> {
    let t = text.to_string();
    match catch(move || parse_sexp(Srcloc::start("*verif*"), t.bytes()).map_err(|e| format!("{}: {}", e.0, e.1))) {
        Ok(r) => r,
        Err(p) => Err(format!("PANIC: {}", p)),
    }
}

/// Text spellings of an atom that the modern reader accepts, with the bytes each is meant to denote.
fn spellings(v: &[u8]) -> Vec<String> {
    let mut out = vec![];
    if v.is_empty() {
        out.push("()".to_string());
        out.push("0".to_string());
        out.push("0x".to_string());
        out.push("\"\"".to_string());
        return out;
    }
    out.push(format!("0x{}", hex::encode(v)));
    out.push(format!("0X{}", hex::encode(v)).replace("0X", "0x")); // same spelling kept once more to exercise hashing of equal texts
    let n = num_bigint::BigInt::from_signed_bytes_be(v);
    if int_bytes_big(&n) == v {
        out.push(n.to_string());
    }
    let plain = v.iter().all(|b| (0x20..0x7f).contains(b) && *b != b'"' && *b != b'\'' && *b != b'\\');
    if plain {
        out.push(format!("\"{}\"", String::from_utf8_lossy(v)));
        out.push(format!("'{}'", String::from_utf8_lossy(v)));
        let bare_ok = v.iter().all(|b| b.is_ascii_alphabetic() || *b == b'_' || *b == b'$' || *b == b'*') ;
        if bare_ok {
            out.push(String::from_utf8_lossy(v).to_string());
        }
    }
    out
}

pub fn c07(thorough: bool, replay: Option<String>) -> i32 {
    let mut rep = Report::new("C07", if thorough { "thorough" } else { "quick" }, "exploration");
    rep.rule = "conversion/hash clauses: every CLVM value of the stated finite sets x both integer modes: convert_from_clvm_rs then convert_to_clvm_rs must give the identical value; rich-form hash, classic hash, clvmr tree_hash_from_stream and the harness's own sha256 tree hash must be equal. \
        equality clause (fixed mode): a pool of rich values obtained by reading every text spelling of every pool atom and by converting CLVM; for ALL pairs: == must hold exactly when the convert_to_clvm_rs encodings are byte-identical, and equal values must have equal std hashes \
        (hash collisions between unequal values are counted, not flagged: they cannot be observed through any map or set). non-trivial = distinct (mode, value) round trips / distinct pairs with both orders compared"
        .to_string();
    rep.assumptions = vec![
        "clvmr tree_hash_from_stream is the consensus tree hash (cross-checked against an independent sha256 implementation in the harness on every value)".to_string(),
        "'CLVM encoding of a rich value' is what convert_to_clvm_rs returns, as the property defines it".to_string(),
    ];
    if let Some(path) = replay {
        let v: serde_json::Value = serde_json::from_str(&std::fs::read_to_string(&path).expect("read replay")).expect("json");
        let r = &v["replay"];
        let mut st = Stats::new();
        if r["kind"] == "value" {
            let b = hex::decode(r["hex"].as_str().unwrap()).unwrap();
            let mut a = Allocator::new();
            let n = clvmr::serde::node_from_bytes(&mut a, &b).unwrap();
            let t = T::from_node(&a, n);
            check_c07_value(&mut st, &t, r["fixed"].as_bool().unwrap());
            check_c07_value(&mut st, &t, r["fixed"].as_bool().unwrap());
        } else {
            eprintln!("pair replays: texts {} and {}", r["a"], r["b"]);
            let pool = vec![pool_entry_text(r["a"].as_str().unwrap()), pool_entry_text(r["b"].as_str().unwrap())];
            let pool: Vec<PoolEntry> = pool.into_iter().flatten().collect();
            check_pairs(&mut st, &pool, 0, pool.len());
        }
        rep.add_sub("replay", "one case", 1, false, false, st);
        return rep.finish();
    }
    let cap = Some(Duration::from_secs(if thorough { 1500 } else { 40 }));

    // (1) every atom of length 0..k, both modes
    let k = if thorough { 3 } else { 2 };
    let n = bytes_upto_count(k) * 2;
    let (st, capped) = par_range(n, 4096, cap, || (), |_, st, i| check_c07_value(st, &T::A(bytes_upto_get(i / 2)), i % 2 == 0));
    rep.add_sub("atoms/all-bytes", &format!("every atom of length 0..{} x {{fixed, legacy}}", k), n, true, capped, st);
    if !thorough {
        let n = strings_upto_count(CLASS.len(), 3) * 2;
        let (st, capped) = par_range(n, 4096, cap, || (), |_, st, i| check_c07_value(st, &T::A(strings_upto_get(&CLASS, i / 2)), i % 2 == 0));
        rep.add_sub("atoms/class-strings", "every atom of length 0..3 over the 31 byte-class representatives x {fixed, legacy}", n, true, capped, st);
    }

    // (2) trees with <= 3 leaves over a 40-atom alphabet
    let mut alpha: Vec<T> = vec![T::nil()];
    for v in [
        &[0u8][..], &[1], &[0x7f], &[0x80], &[0xff], &[b'a'], &[b'"'], &[b'\\'], &[0, 0], &[0, 1], &[0, 0x7f], &[0, 0x80], &[0, 0xff], &[0xff, 0], &[0xff, 0x7f], &[0xff, 0x80], &[0xff, 0xff],
        &[0x7f, 0xff], &[0x80, 0], b"ab", b"a\"", b"a\\", b"a b", &[0, 0, 0], &[0, 0, 0x80], &[0xff, 0xff, 0x7f], &[0xff, 0xff, 0x80], b"abc", b"a\\b", b"\"q\"", b"hello world", &[1, 0, 0, 0, 0],
    ] {
        alpha.push(T::a(v));
    }
    alpha.push(T::A((1..=32u8).collect()));
    alpha.push(T::A(vec![0u8; 32]));
    alpha.push(T::A(vec![0xffu8; 32]));
    let mut z = vec![0u8; 4];
    z.extend((1..=32u8).collect::<Vec<u8>>());
    alpha.push(T::A(z));
    alpha.push(T::A(pattern_atom(4096)));
    alpha.push(T::A({
        let mut v = vec![0u8];
        v.extend(pattern_atom(300));
        v
    }));
    let na = alpha.len();
    let sp = TreeSpace::new(alpha.clone(), 3);
    let n = sp.total * 2;
    let (st, capped) = par_range(n, 256, cap, || (), |_, st, i| check_c07_value(st, &sp.get(i / 2), i % 2 == 0));
    rep.add_sub("trees", &format!("every tree with 1..3 leaves over {} atoms (boundary bytes, zero/ff-led, printable with quotes/backslash, 32-byte, 36-byte zero-prefixed, 4 KiB) x both modes", na), n, true, capped, st);

    // (2') deep and wide shapes: left / right spines and balanced-ish combs of every depth 1..64 and at 100, 300, 1000
    // (thorough: 3000), leaves cycling through boundary atoms - recursion depth and accumulation order of the hashes
    {
        let leafs: Vec<T> = vec![T::nil(), T::a(&[0]), T::a(&[0x80]), T::a(&[0xff, 0x80]), T::a(b"ab\\"), T::int(7), T::A((1..=32u8).collect())];
        let mut depths: Vec<usize> = (1..=64).collect();
        depths.extend([100, 300, 1000]);
        if thorough {
            depths.push(3000);
        }
        let mut shapes: Vec<T> = vec![];
        for d in &depths {
            for kind in 0..3 {
                let mut t = leafs[d % leafs.len()].clone();
                for i in 0..*d {
                    let l = leafs[(i + kind) % leafs.len()].clone();
                    t = match kind {
                        0 => T::p(l, t),                                  // proper-list-like right spine
                        1 => T::p(t, l),                                  // left spine
                        _ => if i % 2 == 0 { T::p(l, t) } else { T::p(t, l) }, // zig-zag
                    };
                }
                shapes.push(t);
            }
        }
        let n = shapes.len() as u64 * 2;
        let shapes = std::sync::Arc::new(shapes);
        let sh = shapes.clone();
        let (st, capped) = par_range(n, 4, cap, || (), move |_, st, i| {
            let t = sh[(i / 2) as usize].clone();
            let fixed = i % 2 == 0;
            // deep values: run on a big stack so that the harness's own recursion is not the limit
            let mut local = Stats::new();
            let r = crate::par::with_big_stack(move || {
                check_c07_value(&mut local, &t, fixed);
                local
            });
            st.merge(r);
        });
        rep.add_sub("deep-shapes", &format!("{} spines and zig-zags (right, left, alternating) of depth 1..64, 100, 300, 1000{} with boundary atoms as leaves x both modes", shapes.len(), if thorough { ", 3000" } else { "" }), n, true, capped, st);
    }

    // (3) equality clause, fixed mode
    let mut atoms: Vec<Vec<u8>> = vec![];
    for i in 0..bytes_upto_count(1) {
        atoms.push(bytes_upto_get(i));
    }
    let two: &[u8] = &[0x00, 0x01, 0x7f, 0x80, 0xff, b'a', b'q', b'0', b'"'];
    for a in two {
        for b in two {
            atoms.push(vec![*a, *b]);
        }
    }
    for a in &alpha {
        if let T::A(v) = a {
            if v.len() >= 3 && v.len() <= 40 {
                atoms.push(v.clone());
            }
        }
    }
    atoms.sort();
    atoms.dedup();
    let mut pool: Vec<PoolEntry> = vec![];
    for v in &atoms {
        for s in spellings(v) {
            if let Some(e) = pool_entry_text(&s) {
                pool.push(e);
            }
        }
        pool.push(pool_entry_conv(&T::A(v.clone())));
    }
    // a few conses, read and converted
    for txt in ["(1 . 2)", "(1 2)", "(0x01 . 0x02)", "((1 . 2) . 3)", "(1 . (2 . 3))", "(1 2 . 3)", "(() . ())", "(0 . 0)", "(\"a\" . 'a')", "(97 . 0x61)"] {
        if let Some(e) = pool_entry_text(txt) {
            pool.push(e);
        }
    }
    let np = pool.len();
    // pairs are enumerated row-wise; rows are sharded
    let pool_ref = &pool;
    let (st, capped) = par_range(np as u64, 8, cap, || (), |_, st, i| check_pairs(st, pool_ref, i as usize, np));
    rep.add_sub("equality/all-pairs", &format!("pool of {} rich values (every accepted text spelling and the converted form of {} atoms, plus 10 pairs/lists), ALL ordered pairs", np, atoms.len()), (np * np) as u64, true, capped, st);
    rep.finish()
}

#[derive(Clone)]
struct PoolEntry {
    origin: String,
    enc: Vec<u8>,
    // SExp is not Send; rebuild per thread from `origin`
}

fn build_rich(origin: &str) -> Option<Rc<SExp>> {
    if let Some(h) = origin.strip_prefix("conv:") {
        let b = hex::decode(h).ok()?;
        let mut a = Allocator::new();
        let n = clvmr::serde::node_from_bytes(&mut a, &b).ok()?;
        convert_from_clvm_rs(&mut a, loc(), n).ok()
    } else {
        let t = origin.strip_prefix("text:")?;
        let r = read_modern(t).ok()?;
        if r.len() == 1 {
            Some(r[0].clone())
        } else {
            None
        }
    }
}

fn pool_entry_text(s: &str) -> Option<PoolEntry> {
    let origin = format!("text:{}", s);
    let r = build_rich(&origin)?;
    let enc = from_sexp(r).ok()?.bytes();
    Some(PoolEntry { origin, enc })
}
fn pool_entry_conv(t: &T) -> PoolEntry {
    let origin = format!("conv:{}", t.hex());
    let r = build_rich(&origin).expect("conv entry");
    let enc = from_sexp(r).expect("conv encodes").bytes();
    PoolEntry { origin, enc }
}

thread_local! {
    static RICH_CACHE: std::cell::RefCell<HashMap<String, Rc<SExp>>> = std::cell::RefCell::new(HashMap::new());
}
fn rich_of(origin: &str) -> Rc<SExp> {
    RICH_CACHE.with(|c| {
        let mut c = c.borrow_mut();
        if let Some(r) = c.get(origin) {
            return r.clone();
        }
        let r = build_rich(origin).expect("pool entry rebuilds");
        c.insert(origin.to_string(), r.clone());
        r
    })
}

fn check_pairs(st: &mut Stats, pool: &[PoolEntry], row: usize, np: usize) {
    let a = &pool[row];
    let ra = rich_of(&a.origin);
    let ha = std_hash(&ra);
    for j in 0..np {
        let b = &pool[j];
        let rb = rich_of(&b.origin);
        st.eval();
        let same = a.enc == b.enc;
        let eq = *ra == *rb;
        let heq = ha == std_hash(&rb);
        let replay = json!({"kind": "pair", "a": a.origin.trim_start_matches("text:"), "b": b.origin.trim_start_matches("text:")});
        if same {
            st.outcome("same-encoding");
            if row != j {
                st.nontrivial(&(row, j));
                if row + 1 == j {
                    st.sample(json!({"a": a.origin, "b": b.origin, "encoding": hex::encode(&a.enc), "==": eq, "hash_equal": heq}));
                }
            }
            if !eq {
                st.violation(&format!("equality/same-encoding-not-equal/{}|{}", kind_of(&ra), kind_of(&rb)), format!("{} and {} both encode to {} but compare unequal", a.origin, b.origin, hex::encode(&a.enc)), a.enc.len(), replay.clone());
            }
            if !heq {
                st.violation(&format!("equality/same-encoding-hash-differs/{}|{}", kind_of(&ra), kind_of(&rb)), format!("{} and {} both encode to {} but hash differently", a.origin, b.origin, hex::encode(&a.enc)), a.enc.len(), replay);
            }
        } else {
            st.outcome("different-encoding");
            if eq {
                st.violation(&format!("equality/different-encoding-equal/{}|{}", kind_of(&ra), kind_of(&rb)), format!("{} (-> {}) and {} (-> {}) compare equal", a.origin, hex::encode(&a.enc), b.origin, hex::encode(&b.enc)), a.enc.len() + b.enc.len(), replay);
            }
            if heq {
                st.count("hash-collisions-between-unequal-values(not flagged)", 1);
            }
        }
    }
}

// ---------------------------------------------------------------------------
// C09 — printed values re-read to the identical value

fn atoms_of(t: &T, out: &mut Vec<Vec<u8>>) {
    match t {
        T::A(v) => out.push(v.clone()),
        T::P(a, b) => {
            atoms_of(a, out);
            atoms_of(b, out);
        }
    }
}

/// Names the class of the smallest atom of `t` that fails the same round trip on its own
/// (in the same position kinds), so one defect yields one signature however it is embedded.
fn c09_offender(t: &T, classic_ver: Option<usize>) -> String {
    let mut atoms = vec![];
    atoms_of(t, &mut atoms);
    atoms.sort_by_key(|a| (a.len(), a.clone()));
    atoms.dedup();
    for a in &atoms {
        for p in positions(&T::A(a.clone())) {
            let bad = match classic_ver {
                Some(v) => disassemble(&p, Some(v)).ok().and_then(|s| assemble(&s).ok()) != Some(p.clone()),
                None => {
                    let pp = p.clone();
                    let text = catch(move || {
                        let _g = NewStyleIntConversion::new(true);
                        to_sexp(&pp, Spell::Convert).to_string()
                    })
                    .unwrap_or_default();
                    let r1 = read_modern(&text).ok().and_then(|v| if v.len() == 1 { from_sexp(v[0].clone()).ok() } else { None });
                    r1 != Some(p.clone()) || assemble(&text).ok() != Some(p.clone())
                }
            };
            if bad {
                return format!("atom[{}]", atom_class(a));
            }
        }
    }
    format!("no-single-atom[{}]", worst_atom_class(t))
}

fn c09_classic(st: &mut Stats, t: &T, ver: usize) {
    st.eval();
    let replay = json!({"kind": "classic", "hex": t.hex(), "version": ver});
    let text = match disassemble(t, Some(ver)) {
        Ok(s) => s,
        Err(p) => {
            st.violation("classic/disassemble-panic", format!("disassemble v{} of {} : {}", ver, t.short(), p), t.bytes().len(), replay);
            return;
        }
    };
    match assemble(&text) {
        Ok(back) if back == *t => {
            st.outcome("classic-roundtrip-ok");
            st.nontrivial_by_index();
            if text.len() > 3 && text.len() < 40 {
                st.sample(json!({"value_hex": t.hex(), "version": ver, "disassembled": text}));
            }
        }
        Ok(back) => {
            st.outcome("classic-roundtrip-different");
            st.violation(&format!("classic/different/{}", c09_offender(t, Some(ver))), format!("v{}: {} disassembles to {:?} which assembles to {}", ver, t.short(), text, back.short()), t.bytes().len(), replay);
        }
        Err(e) => {
            st.outcome("classic-roundtrip-rejected");
            st.violation(&format!("classic/rejected/{}", c09_offender(t, Some(ver))), format!("v{}: {} disassembles to {:?} which the assembler rejects: {}", ver, t.short(), text, e), t.bytes().len(), replay);
        }
    }
}

fn c09_modern(st: &mut Stats, t: &T) {
    st.eval();
    let replay = json!({"kind": "modern", "hex": t.hex()});
    let tt = t.clone();
    let text = match catch(move || {
        let _g = NewStyleIntConversion::new(true);
        to_sexp(&tt, Spell::Convert).to_string()
    }) {
        Ok(s) => s,
        Err(p) => {
            st.violation("modern/print-panic", format!("printing {} : {}", t.short(), p), t.bytes().len(), replay);
            return;
        }
    };
    // modern reader
    let back = read_modern(&text).and_then(|v| if v.len() == 1 { from_sexp(v[0].clone()) } else { Err(format!("{} forms", v.len())) });
    match back {
        Ok(b) if b == *t => {
            st.outcome("modern-reader-ok");
            st.nontrivial_by_index();
            if text.len() > 3 && text.len() < 40 {
                st.sample(json!({"value_hex": t.hex(), "printed": text}));
            }
        }
        Ok(b) => st.violation(&format!("modern/reader-different/{}", c09_offender(t, None)), format!("{} prints as {:?}, modern reader gives {}", t.short(), text, b.short()), t.bytes().len(), replay.clone()),
        Err(e) => st.violation(&format!("modern/reader-rejected/{}", c09_offender(t, None)), format!("{} prints as {:?}, modern reader: {}", t.short(), text, e), t.bytes().len(), replay.clone()),
    }
    // classic assembler
    st.eval();
    match assemble(&text) {
        Ok(b) if b == *t => {
            st.outcome("modern-print-classic-assemble-ok");
            st.nontrivial_by_index();
        }
        Ok(b) => st.violation(&format!("modern/assembler-different/{}", c09_offender(t, None)), format!("{} prints as {:?}, classic assembler gives {}", t.short(), text, b.short()), t.bytes().len(), replay),
        Err(e) => st.violation(&format!("modern/assembler-rejected/{}", c09_offender(t, None)), format!("{} prints as {:?}, classic assembler: {}", t.short(), text, e), t.bytes().len(), replay),
    }
}

/// Every text spelling the modern reader accepts for an atom: hex, decimal (if canonical), double-quoted and
/// single-quoted with the delimiter and backslashes escaped (if printable).
fn source_spellings(v: &[u8]) -> Vec<String> {
    let mut out = vec![];
    if v.is_empty() {
        return vec!["()".to_string(), "\"\"".to_string(), "''".to_string()];
    }
    out.push(format!("0x{}", hex::encode(v)));
    let n = num_bigint::BigInt::from_signed_bytes_be(v);
    if int_bytes_big(&n) == v {
        out.push(n.to_string());
    }
    if v.iter().all(|b| (0x20..0x7f).contains(b)) {
        for delim in [b'"', b'\''] {
            let mut t = String::new();
            t.push(delim as char);
            for b in v {
                if *b == delim || *b == b'\\' {
                    t.push('\\');
                }
                t.push(*b as char);
            }
            t.push(delim as char);
            out.push(t);
        }
    }
    out
}

/// A value READ from source text (so it carries the spelling's own representation: Integer, hex string,
/// double- or single-quoted string), printed by the modern printer and read again by both readers.
fn c09_modern_spelling(st: &mut Stats, text: &str, position: usize) {
    st.eval();
    let src = match position {
        0 => text.to_string(),
        1 => format!("({} 1)", text),
        2 => format!("(1 {})", text),
        _ => format!("(1 . {})", text),
    };
    let replay = json!({"kind": "modern-spelling", "text": src});
    let src2 = src.clone();
    let r = catch(move || {
        let _g = NewStyleIntConversion::new(true);
        let forms = read_modern(&src2)?;
        if forms.len() != 1 {
            return Err(format!("{} forms", forms.len()));
        }
        let x = from_sexp(forms[0].clone())?;
        Ok((x, forms[0].to_string()))
    });
    let (x, printed) = match r {
        Ok(Ok(p)) => p,
        Ok(Err(_)) => {
            st.outcome("spelling-not-accepted(no claim)");
            return;
        }
        Err(p) => {
            st.violation("modern/print-panic", format!("reading and printing {:?}: {}", src, p), src.len(), replay);
            return;
        }
    };
    let back = read_modern(&printed).and_then(|v| if v.len() == 1 { from_sexp(v[0].clone()) } else { Err(format!("{} forms", v.len())) });
    let cls = c09_offender(&x, None);
    match back {
        Ok(b) if b == x => {
            st.outcome("modern-reader-ok");
            st.nontrivial_by_index();
            if printed.len() > 3 && printed.len() < 30 && printed != src {
                st.sample(json!({"source": src, "printed": printed}));
            }
        }
        Ok(b) => st.violation(&format!("modern-spelling/reader-different/{}", cls), format!("source {:?} (denoting {}) prints as {:?}, which the modern reader reads as {}", src, x.short(), printed, b.short()), src.len(), replay.clone()),
        Err(e) => st.violation(&format!("modern-spelling/reader-rejected/{}", cls), format!("source {:?} prints as {:?}, modern reader: {}", src, printed, e), src.len(), replay.clone()),
    }
    st.eval();
    match assemble(&printed) {
        Ok(b) if b == x => {
            st.outcome("modern-print-classic-assemble-ok");
            st.nontrivial_by_index();
        }
        Ok(b) => st.violation(&format!("modern-spelling/assembler-different/{}", cls), format!("source {:?} (denoting {}) prints as {:?}, which the classic assembler reads as {}", src, x.short(), printed, b.short()), src.len(), replay),
        Err(e) => st.violation(&format!("modern-spelling/assembler-rejected/{}", cls), format!("source {:?} prints as {:?}, classic assembler: {}", src, printed, e), src.len(), replay),
    }
}

fn positions(x: &T) -> [T; 4] {
    [x.clone(), T::list(&[x.clone(), T::int(1)]), T::list(&[T::int(1), x.clone()]), T::p(T::int(1), x.clone())]
}

pub fn c09(thorough: bool, replay: Option<String>) -> i32 {
    let mut rep = Report::new("C09", if thorough { "thorough" } else { "quick" }, "exploration");
    rep.rule = "classic pair: every value of the stated finite sets x operator-set versions 0,1,2: assemble(disassemble(x, v)) must be byte-identical to x. modern printer (fixed integer mode): the same values converted with convert_from_clvm_rs, printed with Display, re-read by parse_sexp+convert_to_clvm_rs and by the classic assembler: both must give x. \
        Atoms are placed alone, as list head, as non-head element and as improper tail. non-trivial = distinct (reader, value) pairs that round-tripped"
        .to_string();
    rep.assumptions = vec!["legacy integer mode is excluded for the modern printer, as the property states".to_string()];
    if let Some(path) = replay {
        let v: serde_json::Value = serde_json::from_str(&std::fs::read_to_string(&path).expect("read replay")).expect("json");
        let r = &v["replay"];
        let mut st = Stats::new();
        let b = hex::decode(r["hex"].as_str().unwrap()).unwrap();
        let mut a = Allocator::new();
        let n = clvmr::serde::node_from_bytes(&mut a, &b).unwrap();
        let t = T::from_node(&a, n);
        for _ in 0..2 {
            if r["kind"] == "classic" {
                c09_classic(&mut st, &t, r["version"].as_u64().unwrap() as usize);
            } else {
                c09_modern(&mut st, &t);
            }
        }
        rep.add_sub("replay", "one case", 1, false, false, st);
        return rep.finish();
    }
    let cap = Some(Duration::from_secs(if thorough { 2400 } else { 45 }));
    let k = if thorough { 3 } else { 2 };
    let na = bytes_upto_count(k);
    // (a) classic
    let n = na * 4 * 3;
    let (st, capped) = par_range(n, 4096, cap, || (), |_, st, i| {
        let atom = T::A(bytes_upto_get(i / 12));
        let p = &positions(&atom)[((i / 3) % 4) as usize];
        c09_classic(st, p, (i % 3) as usize);
    });
    rep.add_sub("classic/all-bytes", &format!("every atom of length 0..{} x {{alone, head, non-head, improper tail}} x versions 0,1,2", k), n, true, capped, st);
    if !thorough {
        let nc = strings_upto_count(CLASS.len(), 3);
        let n = nc * 4 * 3;
        let (st, capped) = par_range(n, 4096, cap, || (), |_, st, i| {
            let atom = T::A(strings_upto_get(&CLASS, i / 12));
            let p = &positions(&atom)[((i / 3) % 4) as usize];
            c09_classic(st, p, (i % 3) as usize);
        });
        rep.add_sub("classic/class-strings", "every atom of length 0..3 over the 31 byte-class representatives x 4 positions x versions 0,1,2", n, true, capped, st);
    }
    // trees over class atoms + keyword opcodes + tricky texts
    let mut alpha: Vec<T> = vec![T::nil()];
    for v in [
        &[1u8][..], &[2], &[4], &[8], &[0x10], &[0x3d], &[0x3e], &[0x30], &[0], &[0x7f], &[0x80], &[0xff], &[0, 0], &[0, 0x80], &[0xff, 0x7f], &[0xff, 0x80], b"q", b"a", b"\"", b"'", b"\\", b"(", b")", b".", b";", b"#",
        b"ab", b"0x", b"-1", b"10", b"a b", b"a\"b", b"a'b", b"a\\b", b"abc\\", b"\\\\\\", b"(a)", b". .", b";c\n", b"#ab", b"0x1g", b"-12", b"123", b"sha256", b"a\"'", &[0x13, 0xd6, 0x1f, 0x00], &[0, 0, 0], &[0xff, 0xff, 0xff], &[0xe2, 0x82, 0xac],
    ] {
        alpha.push(T::a(v));
    }
    let nalpha = alpha.len();
    let leaves = if thorough { 3 } else { 2 };
    let sp = TreeSpace::new(alpha, leaves);
    let n = sp.total * 3;
    let (st, capped) = par_range(n, 512, cap, || (), |_, st, i| c09_classic(st, &sp.get(i / 3), (i % 3) as usize));
    rep.add_sub("classic/trees", &format!("every tree with 1..{} leaves over {} atoms (opcodes, keyword names, quotes, backslash, parens, dot, semicolon, '#', digits-only, 0x look-alikes, negative-looking, zero-padded, utf-8, 4-byte opcode) x versions 0,1,2", leaves, nalpha), n, true, capped, st);

    // (b) modern printer
    let n = na * 4;
    let (st, capped) = par_range(n, 4096, cap, || (), |_, st, i| {
        let atom = T::A(bytes_upto_get(i / 4));
        c09_modern(st, &positions(&atom)[(i % 4) as usize]);
    });
    rep.add_sub("modern/all-bytes", &format!("every atom of length 0..{} x 4 positions, fixed integer mode, read back by the modern reader and by the classic assembler", k), n, true, capped, st);
    let n = sp.total;
    let (st, capped) = par_range(n, 512, cap, || (), |_, st, i| c09_modern(st, &sp.get(i)));
    rep.add_sub("modern/trees", &format!("every tree with 1..{} leaves over the same {} atoms", leaves, nalpha), n, true, capped, st);
    // values as READ from source text, in every spelling: the printer sees Integer / hex-string / double- and
    // single-quoted-string representations, not only what convert_from_clvm_rs produces
    {
        let mut texts: Vec<String> = vec![];
        for i in 0..bytes_upto_count(2) {
            texts.extend(source_spellings(&bytes_upto_get(i)));
        }
        // printable strings of length 3 and 4 over the characters the printers and readers branch on
        let pr: Vec<u8> = b"ax\"'\\ 0(;#.".to_vec();
        for i in strings_upto_count(pr.len(), 2)..strings_upto_count(pr.len(), if thorough { 5 } else { 4 }) {
            texts.extend(source_spellings(&strings_upto_get(&pr, i)));
        }
        texts.sort();
        texts.dedup();
        let n = texts.len() as u64 * 4;
        let texts = std::sync::Arc::new(texts);
        let tx = texts.clone();
        let (st, capped) = par_range(n, 2048, cap, || (), move |_, st, i| c09_modern_spelling(st, &tx[(i / 4) as usize], (i % 4) as usize));
        rep.add_sub("modern/source-spellings", &format!("{} source spellings (hex, decimal, double-quoted, single-quoted with escapes) of every atom of length 0..2 and of every printable string of length 3..{} over the characters a x \" ' \\ space 0 ( ; # . - read by the modern reader, printed, and read again by both readers, in 4 positions", texts.len(), if thorough { 5 } else { 4 }), n, true, capped, st);
    }
    // long atoms
    let mut longs: Vec<T> = vec![];
    for l in [4usize, 5, 8, 16, 31, 32, 33, 64, 100, 1000] {
        longs.push(T::A(pattern_atom(l)));
        longs.push(T::A(vec![b'a'; l]));
        longs.push(T::A(vec![0u8; l]));
        longs.push(T::A(vec![0xffu8; l]));
        let mut v = vec![b'a'; l];
        v[l / 2] = b'\\';
        longs.push(T::A(v.clone()));
        v[l / 2] = b'"';
        longs.push(T::A(v.clone()));
        v[l / 2] = b'\'';
        v[l - 1] = b'"';
        longs.push(T::A(v));
        let mut d = vec![b'1'; l];
        longs.push(T::A(d.clone()));
        d[0] = b'-';
        longs.push(T::A(d));
    }
    let n = (longs.len() * 4) as u64;
    let (st, capped) = par_range(n, 4, cap, || (), |_, st, i| {
        let p = &positions(&longs[(i / 4) as usize])[(i % 4) as usize];
        for v in 0..3 {
            c09_classic(st, p, v);
        }
        c09_modern(st, p);
    });
    // (c) compiler outputs: the text the command-line compiler prints denotes the bytes the library emits
    {
        use crate::gen::*;
        use crate::progmc::{dialect_of, entry_option_sets};
        let mut cases: Vec<Case> = vec![];
        for s in ["*standard-cl-23.1*", "*standard-cl-24*"] {
            cases.extend(oplit_cases(Some(s)));
            if thorough {
                for c in scope_chains(1) {
                    cases.push(scope_case(&c, NamePolicy::Fresh, Some(s)));
                }
            }
        }
        let n = cases.len() as u64;
        let (st, capped) = par_range(n, 8, cap, || (), |_, st, i| {
            let c = &cases[i as usize];
            let sigil = c.prog.sigil.unwrap();
            for (optname, o) in entry_option_sets(sigil) {
                st.eval();
                let text = c.prog.text();
                if let Ok(out) = modern_compile(&text, dialect_of(sigil), &o) {
                    if c.tags.get(1).map(|t| t.starts_with("quote-")).unwrap_or(false) {
                        st.outcome("quoted-symbol-program(excluded by the property)");
                        continue;
                    }
                    match assemble(&out.text) {
                        Ok(t) if t == out.code => {
                            st.outcome("printed-text-denotes-the-emitted-bytes");
                            st.nontrivial(&(&text, optname));
                            if out.text.len() < 120 {
                                st.sample(json!({"program": text, "printed": out.text, "bytes": out.code.hex()}));
                            }
                        }
                        other => st.violation(
                            &format!("compiler-output/printed-text-differs/{}", c.tags.get(1).cloned().unwrap_or_default().split(':').next().unwrap_or("")),
                            format!("{} [{}]: printed program text {:?} assembles to {:?}, the library emits {}", text, optname, out.text, other.map(|t| t.short()), out.code.short()),
                            text.len(),
                            json!({"kind": "compiled", "text": text, "sigil": sigil, "opts": optname}),
                        ),
                    }
                } else {
                    st.outcome("rejected");
                }
            }
        });
        rep.add_sub("compiler-outputs", &format!("{} generated programs with string / hex / negative / large / zero-prefixed literal constants and every operator in 8 positions, fixed-mode dialects cl23.1 and cl24, both entry option sets: assemble(printed text) must equal the bytes of convert_to_clvm_rs", n), n, true, capped, st);
    }
    rep.add_sub("long-atoms", "atoms of lengths 4..1000 (pattern, all-letters, all-zero, all-ff, with one backslash / double quote / both quotes, digits-only, negative-looking) x 4 positions, all four round trips", n, true, capped, st);
    rep.finish()
}
