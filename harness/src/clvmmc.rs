//! CLVM-level engines: C04 (classic optimiser preserves meaning) and C06
//! (stepping evaluator agrees with the consensus evaluator).
use crate::oracle::{consensus, quote, Ctx, NOut, Out};
use crate::par::{catch, par_range};
use crate::report::{Report, Stats};
use crate::subject::*;
use crate::tree::*;
use serde_json::json;
use std::rc::Rc;
use std::time::Duration;

use chialisp::classic::clvm_tools::stages::stage_0::{DefaultProgramRunner, TRunProgram};
use chialisp::classic::clvm_tools::stages::stage_2::optimize::optimize_sexp;
use chialisp::compiler::clvm::NewStyleIntConversion;
use chialisp::compiler::optimize::run_optimizer;
use clvmr::allocator::{Allocator, NodePtr};

pub fn ops_core() -> Vec<T> {
    let mut v = vec![T::nil()];
    for b in [1u8, 2, 3, 4, 5, 6, 7, 8, 9, 16, 17, 11] {
        v.push(T::a(&[b]));
    }
    v.push(T::a(&[0x00]));
    v.push(T::a(&[0xff]));
    v.push(T::a(&[0x80]));
    v
}

fn complete_tree(depth: usize, next: &mut i64) -> T {
    if depth == 0 {
        *next += 1;
        T::int(1000 + *next)
    } else {
        let l = complete_tree(depth - 1, next);
        let r = complete_tree(depth - 1, next);
        T::p(l, r)
    }
}

fn spine(depth: usize, pattern: &dyn Fn(usize) -> bool) -> T {
    // pattern(i) == true: step i goes right (rest); off-path siblings are distinct atoms
    let mut t = T::int(7777);
    for i in (0..depth).rev() {
        let sib = T::int(2000 + i as i64);
        t = if pattern(i) { T::p(sib, t) } else { T::p(t, sib) };
    }
    t
}

/// bits of a path atom, first step first; None for the all-zero path
fn path_bits(p: &[u8]) -> Option<Vec<bool>> {
    let mut bits = vec![];
    for b in p.iter().rev() {
        for k in 0..8 {
            bits.push((b >> k) & 1 == 1);
        }
    }
    while let Some(false) = bits.last() {
        bits.pop();
    }
    bits.pop()?; // the terminating 1
    Some(bits)
}

fn env_along(bits: &[bool], tail_depth: usize) -> T {
    let mut n = 0;
    let mut t = complete_tree(tail_depth, &mut n);
    for (i, b) in bits.iter().enumerate().rev() {
        let sib = T::int(3000 + i as i64);
        t = if *b { T::p(sib, t) } else { T::p(t, sib) };
    }
    t
}

/// The path-atom family shared by C04, C06 and C12: all 1-byte atoms, 2-byte atoms with the first byte
/// from a boundary set x all second bytes, and lengths 3..9 over boundary patterns.
pub fn path_family(thorough: bool) -> (Vec<Vec<u8>>, Vec<u8>) {
    let mut paths: Vec<Vec<u8>> = vec![];
    for b in 1..=255u8 {
        paths.push(vec![b]);
    }
    paths.push(vec![0]);
    let firsts: Vec<u8> = if thorough { vec![0x00, 0x01, 0x02, 0x03, 0x0f, 0x10, 0x3f, 0x40, 0x55, 0x7f, 0x80, 0x81, 0xaa, 0xc0, 0xfe, 0xff] } else { vec![0x00, 0x01, 0x80, 0xff] };
    for a in &firsts {
        for b in 0..=255u8 {
            paths.push(vec![*a, b]);
        }
    }
    for len in 3..=9usize {
        for first in [0x00u8, 0x01, 0x7f, 0x80, 0xff] {
            for mid in [0x00u8, 0x55, 0xff] {
                for last in [0x00u8, 0x01, 0x80, 0xff] {
                    let mut v = vec![first];
                    v.extend(std::iter::repeat(mid).take(len - 2));
                    v.push(last);
                    paths.push(v);
                }
            }
        }
    }
    (paths, firsts)
}

pub fn path_envs(p: &[u8], big_depth: usize, spines: bool) -> Vec<T> {
    let mut n1 = 0;
    let mut v = vec![complete_tree(big_depth, &mut n1)];
    if spines {
        v.extend([spine(90, &|_| false), spine(90, &|_| true), spine(90, &|i| i % 2 == 0), spine(90, &|i| i % 2 == 1)]);
    }
    if let Some(bits) = path_bits(p) {
        if bits.len() <= 80 {
            v.push(env_along(&bits, 3));
        }
    }
    v
}

// ---------------------------------------------------------------------------
// C06

fn head_names() -> Vec<Vec<u8>> {
    chialisp::compiler::prims::prims().into_iter().map(|p| p.0).collect()
}

fn head_sig(prog: &T) -> String {
    match prog {
        T::P(h, args) => {
            let hs = match &**h {
                T::P(_, _) => "pair-in-operator-position".to_string(),
                T::A(v) if v.is_empty() => "nil-operator".to_string(),
                T::A(v) if v.len() == 1 => format!("op{}", v[0]),
                T::A(v) => format!("op-len{}", v.len()),
            };
            // argument list terminator
            let mut cur: &T = args;
            while let T::P(_, r) = cur {
                cur = r;
            }
            if cur.is_nil() {
                hs
            } else {
                format!("{}+non-nil-terminator", hs)
            }
        }
        T::A(v) if !v.is_empty() && v.iter().all(|b| *b == 0) => "all-zero-path".to_string(),
        T::A(_) => "path".to_string(),
    }
}

/// Find the smallest subprogram class responsible: walk into the program looking for the
/// first construct of a known-delicate kind.
pub fn c06_sig_pub(prog: &T) -> String {
    c06_sig(prog)
}

pub fn complete_tree_pub(depth: usize, next: &mut i64) -> T {
    complete_tree(depth, next)
}

fn c06_sig(prog: &T) -> String {
    fn scan(t: &T, found: &mut Vec<String>) {
        match t {
            T::A(v) => {
                if !v.is_empty() && v.iter().all(|b| *b == 0) {
                    found.push("all-zero-path".to_string());
                }
            }
            T::P(h, rest) => {
                if let T::A(v) = &**h {
                    if v == &[1u8] {
                        return; // quoted data
                    }
                    if v == &[2u8] {
                        // (a (q . X) ...): X is code
                        if let T::P(first, _) = &**rest {
                            if let T::P(q, x) = &**first {
                                if matches!(&**q, T::A(qv) if qv == &[1u8]) {
                                    scan(x, found);
                                }
                            }
                        }
                    }
                }
                if matches!(**h, T::P(_, _)) {
                    found.push("pair-in-operator-position".to_string());
                }
                let mut cur: &T = rest;
                while let T::P(a, r) = cur {
                    scan(a, found);
                    cur = r;
                }
                if !cur.is_nil() {
                    found.push("non-nil-terminator".to_string());
                }
            }
        }
    }
    let mut f = vec![];
    scan(prog, &mut f);
    f.sort();
    f.dedup();
    if f.is_empty() {
        format!("plain/{}", head_sig(prog))
    } else {
        f.join("+")
    }
}

fn compare_c06(st: &mut Stats, prog: &T, env: &T, sp: Spell, fixed: bool, sub: &str) {
    st.eval();
    let want = consensus(prog, env);
    let (p2, e2) = (prog.clone(), env.clone());
    let got = {
        let _g = NewStyleIntConversion::new(fixed);
        stepping_run(&p2, &e2, sp, Some(20000))
    };
    let key = format!("consensus={}/stepping={}", want.kind(), got.kind());
    st.outcome(&key);
    let agree = match (&want, &got) {
        (Out::Limit, _) | (_, Out::Limit) => true,
        (Out::Val(a), Out::Val(b)) => a == b,
        (Out::Err(_), Out::Err(e)) => !e.starts_with("PANIC"),
        _ => false,
    };
    if let (Out::Val(v), Out::Val(_)) = (&want, &got) {
        if agree {
            st.nontrivial(&(prog, env));
            if prog.leaves() >= 3 {
                st.sample(json!({"program": prog.short(), "env": env.short(), "value": v.short(), "spelling": format!("{:?}", sp)}));
            }
        }
    }
    if !agree {
        let mode = if fixed { "" } else { "/legacy-int-mode" };
        let cs = c06_sig(prog);
        // one defect class, one signature: the ((X) ...) operator syntax is identified by the input class alone
        let sig = if cs.contains("pair-in-operator-position") { "pair-in-operator-position".to_string() } else { format!("{}/{}/{}{}", sub, cs, format!("{:?}", sp).to_lowercase(), mode) };
        st.violation(
            &sig,
            format!("program {} env {} ({:?} spelling): consensus {}, stepping evaluator {}", prog.short(), env.short(), sp, want.short(), got.short()),
            prog.bytes().len() + env.bytes().len(),
            json!({"kind": "c06", "prog": prog.hex(), "env": env.hex(), "spell": format!("{:?}", sp), "fixed": fixed}),
        );
    }
}

fn spell_of(s: &str) -> Spell {
    match s {
        "Atom" => Spell::Atom,
        "Hex" => Spell::Hex,
        "Str" => Spell::Str,
        "Int" => Spell::Int,
        _ => Spell::Convert,
    }
}

pub fn t_from_hex(h: &str) -> T {
    let b = hex::decode(h).expect("hex");
    let mut a = Allocator::new();
    let n = clvmr::serde::node_from_bytes(&mut a, &b).expect("valid clvm");
    T::from_node(&a, n)
}

pub fn c06(thorough: bool, replay: Option<String>) -> i32 {
    let mut rep = Report::new("C06", if thorough { "thorough" } else { "quick" }, "exploration");
    rep.rule = "every (program, environment) of the stated finite sets is run by compiler::clvm::run (step limit 20000) and by clvmr (cost limit 2e8); required: same value, or failure on both sides (texts not compared; a limit on either side excludes the pair). \
        non-trivial = distinct pairs on which both evaluators returned the same value"
        .to_string();
    rep.assumptions = vec![
        "clvmr ChiaDialect(NO_UNKNOWN_OPS|ENABLE_KECCAK_OPS_OUTSIDE_GUARD) is the consensus evaluator".to_string(),
        "a byte-string head whose bytes spell an operator name is read as that name by design (documented convenience); such heads are only compared in integer spelling".to_string(),
        "softfork is outside the comparison, as the property states".to_string(),
    ];
    if let Some(path) = replay {
        let v: serde_json::Value = serde_json::from_str(&std::fs::read_to_string(&path).expect("read replay")).expect("json");
        let r = &v["replay"];
        let mut st = Stats::new();
        let p = t_from_hex(r["prog"].as_str().unwrap());
        let e = t_from_hex(r["env"].as_str().unwrap());
        for _ in 0..2 {
            compare_c06(&mut st, &p, &e, spell_of(r["spell"].as_str().unwrap_or("Convert")), r["fixed"].as_bool().unwrap_or(true), "replay");
        }
        rep.add_sub("replay", "one case", 1, false, false, st);
        return rep.finish();
    }
    let cap = Some(Duration::from_secs(if thorough { 2400 } else { 45 }));
    let mut n0 = 0;
    let envs = vec![T::nil(), complete_tree(3, &mut n0), T::list(&[T::p(T::int(7), T::int(8)), T::a(&[0]), T::int(5)])];

    // (i) all trees over OPS_CORE
    let leaves = if thorough { 5 } else { 4 };
    let sp = TreeSpace::new(ops_core(), leaves);
    let n = sp.total * envs.len() as u64;
    let ne = envs.len() as u64;
    let (st, capped) = par_range(n, 2048, cap, || (), |_, st, i| compare_c06(st, &sp.get(i / ne), &envs[(i % ne) as usize], Spell::Convert, true, "core"));
    rep.add_sub("core-trees", &format!("every tree with 1..{} leaves over {:?} x 3 environments", leaves, ops_core()), n, true, capped, st);

    // (ii) one-operator programs over every opcode
    let mut opcodes: Vec<Vec<u8>> = (1..=255u8).map(|b| vec![b]).collect();
    opcodes.push(vec![0x13, 0xd6, 0x1f, 0x00]);
    opcodes.push(vec![0x1c, 0x3a, 0x8f, 0x00]);
    opcodes.retain(|o| o != &vec![36u8]); // softfork: outside the comparison
    let argvals = vec![T::nil(), T::int(1), T::int(-1), T::a(&[0]), T::A((1..=32u8).collect()), T::p(T::int(2), T::int(3))];
    let argspace = TreeSpaceArgs::new(argvals.len(), 3);
    let n = opcodes.len() as u64 * argspace.total;
    let names = head_names();
    let (st, capped) = par_range(n, 256, cap, || (), |_, st, i| {
        let op = &opcodes[(i / argspace.total) as usize];
        let idx = argspace.get(i % argspace.total);
        let mut items = vec![T::A(op.clone())];
        for k in idx {
            items.push(quote(argvals[k].clone()));
        }
        let prog = T::list(&items);
        compare_c06(st, &prog, &T::nil(), Spell::Convert, true, "one-op");
        compare_c06(st, &prog, &T::nil(), Spell::Int, true, "one-op");
        if !names.contains(op) {
            compare_c06(st, &prog, &T::nil(), Spell::Hex, true, "one-op");
        }
    });
    rep.add_sub("one-operator", "every opcode 1..255 except softfork, plus both secp opcodes, x every argument list of length 0..3 over {nil, 1, -1, 0x00, 32 bytes, (2 . 3)} (quoted), integer / converted / hex spellings", n, true, capped, st);

    // (ii') well-formed nested expressions (depth <= 2)
    let es = ExprSpace::new();
    let envs2 = vec![T::list(&[T::int(11), T::int(12), T::int(13)]), T::p(T::p(T::int(21), T::int(22)), T::p(T::nil(), T::int(24)))];
    let ne2 = envs2.len() as u64;
    let stride = if thorough { 1 } else { 3 };
    let n = es.total / stride * ne2;
    let (st, capped) = par_range(n, 1024, cap, || (), |_, st, i| compare_c06(st, &es.get((i / ne2) * stride), &envs2[(i % ne2) as usize], Spell::Convert, true, "expr"));
    rep.add_sub("expressions", &format!("well-formed expressions of nesting depth <= 2 over f r l c + = i a, paths and constants ({} in total; {}) x 2 environments", es.total, if stride == 1 { "all".to_string() } else { format!("every {}rd by index, a fixed sub-enumeration", stride) }), n, stride == 1, capped, st);

    // (ii'') the path family: every path atom in every spelling a tool can hand to the evaluator
    {
        let (paths, firsts) = path_family(thorough);
        let variants: Vec<(Spell, bool)> = vec![(Spell::Convert, true), (Spell::Convert, false), (Spell::Int, true), (Spell::Hex, true), (Spell::Atom, true)];
        let nv = variants.len() as u64;
        let nctx = 3u64;
        let n = paths.len() as u64 * nv * nctx;
        let (st, capped) = par_range(n, 16, cap, || (), |_, st, i| {
            let p = &paths[(i / (nv * nctx)) as usize];
            let (spell, fixed) = variants[((i / nctx) % nv) as usize];
            if !fixed && p.iter().all(|b| *b == 0) {
                st.outcome("legacy-mode-with-all-zero-atom(no claim)");
                return;
            }
            let prog = match i % nctx {
                0 => T::A(p.clone()),
                1 => T::list(&[T::a(&[2]), quote(T::A(p.clone())), T::a(&[1])]),
                _ => T::list(&[T::a(&[4]), T::A(p.clone()), quote(T::int(1))]),
            };
            for env in path_envs(p, 9, true) {
                compare_c06(st, &prog, &env, spell, fixed, "paths");
            }
        });
        rep.add_sub("paths", &format!("{} path atoms (all 1-byte, 2-byte with first byte in {} values x all second bytes, lengths 3..9 over boundary patterns) as the program, re-rooted through (a (q . P) 1), and as an operand, x 5 spellings (converted in both integer modes, integer, hex string, atom); environments: complete tree of depth 9, four 90-deep spines, and a tree tailored to the path's bits", paths.len(), firsts.len()), n, true, capped, st);
    }

    // (iii) spellings of the core programs
    let leaves3 = if thorough { 4 } else { 3 };
    let sp3 = TreeSpace::new(ops_core(), leaves3);
    let variants: Vec<(Spell, bool)> = vec![(Spell::Convert, false), (Spell::Int, true), (Spell::Int, false), (Spell::Atom, true), (Spell::Hex, true), (Spell::Str, true)];
    let nv = variants.len() as u64;
    let n = sp3.total * ne * nv;
    let (st, capped) = par_range(n, 2048, cap, || (), |_, st, i| {
        let (spell, fixed) = variants[(i % nv) as usize];
        let j = i / nv;
        let prog = sp3.get(j / ne);
        let env = &envs[(j % ne) as usize];
        if !fixed && (has_zero_atom(&prog) || has_zero_atom(env)) {
            // legacy integer mode cannot tell an all-zero atom from nil (documented lossy): no claim
            st.outcome("legacy-mode-with-all-zero-atom(no claim)");
            return;
        }
        compare_c06(st, &prog, env, spell, fixed, "spelling");
    });
    rep.add_sub("spellings", &format!("every tree with 1..{} leaves over the core alphabet x 3 environments x {{converted (legacy mode), integer (both modes), atom, hex string, quoted string}} spellings of every atom", leaves3), n, true, capped, st);
    rep.finish()
}

fn has_zero_atom(t: &T) -> bool {
    match t {
        T::A(v) => !v.is_empty() && v.iter().all(|b| *b == 0),
        T::P(a, b) => has_zero_atom(a) || has_zero_atom(b),
    }
}

/// index -> list of argument indices of length 0..=k over an alphabet of size a
pub struct TreeSpaceArgs {
    a: usize,
    pub total: u64,
}
impl TreeSpaceArgs {
    pub fn new(a: usize, k: usize) -> Self {
        TreeSpaceArgs { a, total: strings_upto_count(a, k) }
    }
    pub fn get(&self, i: u64) -> Vec<usize> {
        let alpha: Vec<u8> = (0..self.a as u8).collect();
        strings_upto_get(&alpha, i).into_iter().map(|b| b as usize).collect()
    }
}

// ---------------------------------------------------------------------------
// C04

#[derive(Clone, Copy, PartialEq, Eq, Debug)]
enum OptEntry {
    OptimizeSexp,
    RunOptimizerFixed,
    RunOptimizerLegacy,
}

fn optimise(r: &T, entry: OptEntry) -> Result<T, String> {
    let r = r.clone();
    match catch(std::panic::AssertUnwindSafe(move || {
        let mut a = Allocator::new();
        let runner: Rc<dyn TRunProgram> = Rc::new(DefaultProgramRunner::new());
        match entry {
            OptEntry::OptimizeSexp => {
                let n = r.to_node(&mut a);
                optimize_sexp(&mut a, n, runner).map(|o| T::from_node(&a, o)).map_err(|e| format!("{}", e))
            }
            OptEntry::RunOptimizerFixed | OptEntry::RunOptimizerLegacy => {
                let _g = NewStyleIntConversion::new(entry == OptEntry::RunOptimizerFixed);
                let s = to_sexp(&r, Spell::Convert);
                run_optimizer(&mut a, runner, s).map_err(|e| format!("{}: {}", e.0, e.1)).and_then(from_sexp)
            }
        }
    })) {
        Ok(x) => x,
        Err(p) => Err(format!("PANIC: {}", p)),
    }
}

fn c04_sig(r: &T) -> String {
    if c06_sig(r).contains("pair-in-operator-position") {
        return "pair-in-operator-position".to_string();
    }
    // reuse the structural scan of C06 and add path-width information
    fn widest_path(t: &T, quoted: bool, w: &mut usize, ffpad: &mut bool) {
        match t {
            T::A(v) => {
                if !quoted {
                    *w = (*w).max(v.len());
                    if v.len() >= 2 && v[0] == 0xff {
                        *ffpad = true;
                    }
                }
            }
            T::P(h, rest) => {
                if let T::A(v) = &**h {
                    if v == &[1u8] {
                        return;
                    }
                }
                let mut cur: &T = rest;
                while let T::P(a, r) = cur {
                    widest_path(a, false, w, ffpad);
                    cur = r;
                }
            }
        }
    }
    let base = c06_sig(r);
    let mut w = 0;
    let mut ff = false;
    widest_path(r, false, &mut w, &mut ff);
    let base = if base.starts_with("plain/") { "plain".to_string() } else { base };
    if w >= 2 {
        format!("{}/path-atom-{}-bytes{}", base, w.min(9), if ff { "-ff-led" } else { "" })
    } else {
        base
    }
}

fn c04_full_sig(sub: &str, kind: &str, r: &T) -> String {
    let c = c04_sig(r);
    if c == "pair-in-operator-position" {
        c
    } else {
        format!("{}/{}/{}", sub, kind, c)
    }
}

fn check_c04(st: &mut Stats, ctx: &mut Ctx, r: &T, extra_envs: &[T], entry: OptEntry, sub: &str) {
    let opt = optimise(r, entry);
    judge_c04(st, ctx, r, opt, extra_envs, &format!("{:?}", entry), json!(null), sub)
}

/// `(opt (q . R))` for each R of a history, in order, on ONE CompilerOperators instance and allocator:
/// the optimiser's memo (opt_memo) is shared by all calls, as it is during one classic compilation.
fn optimise_history(hist: &[T]) -> Vec<Result<T, String>> {
    let hist: Vec<T> = hist.to_vec();
    let n = hist.len();
    match catch(std::panic::AssertUnwindSafe(move || {
        let mut a = Allocator::new();
        let ops = chialisp::classic::clvm_tools::stages::stage_2::operators::run_program_for_search_paths("*verif*", &[], false);
        let mut out = vec![];
        for r in &hist {
            let prog = T::list(&[T::a(b"opt"), quote(r.clone())]).to_node(&mut a);
            let nil = a.nil();
            out.push(ops.run_program(&mut a, prog, nil, None).map(|red| T::from_node(&a, red.1)).map_err(|e| format!("{}", e)));
        }
        out
    })) {
        Ok(x) => x,
        Err(p) => (0..n).map(|_| Err(format!("PANIC: {}", p))).collect(),
    }
}

#[allow(clippy::too_many_arguments)]
fn judge_c04(st: &mut Stats, ctx: &mut Ctx, r: &T, opt: Result<T, String>, extra_envs: &[T], entry: &str, replay_extra: serde_json::Value, sub: &str) {
    ctx.reset();
    let rn = r.to_node(&mut ctx.a);
    let on = match &opt {
        Ok(o) => Some(o.to_node(&mut ctx.a)),
        Err(_) => None,
    };
    let mut envs: Vec<NodePtr> = ctx.envs.clone();
    for e in extra_envs {
        envs.push(e.to_node(&mut ctx.a));
    }
    for (ei, e) in envs.iter().enumerate() {
        st.eval();
        let v = match ctx.run_node(rn, *e) {
            NOut::Val(v) => v,
            NOut::Err(_) => {
                st.outcome("original=error(no claim)");
                continue;
            }
            NOut::Limit => {
                st.outcome("original=limit(no claim)");
                continue;
            }
        };
        let env_desc = |ctx: &Ctx| ctx.t(*e).short();
        let env_replay = |ctx: &Ctx| {
            let t = ctx.t(*e);
            if t.bytes().len() < 30000 {
                t.hex()
            } else {
                format!("fixed:{}", ei)
            }
        };
        match (&opt, on) {
            (Err(_), _) | (Ok(_), None) => {
                st.outcome("optimiser-rejects");
                let replay = json!({"kind": "c04", "prog": r.hex(), "env": env_replay(ctx), "entry": entry, "history": replay_extra});
                st.violation(&c04_full_sig(sub, "rejects", r), format!("{} rejects {} ({}) although it evaluates to {} in env {}", entry, r.short(), opt.as_ref().err().cloned().unwrap_or_default(), ctx.t(v).short(), env_desc(ctx)), r.bytes().len(), replay);
            }
            (Ok(o), Some(on)) => match ctx.run_node(on, *e) {
                NOut::Val(g) if ctx.node_eq(g, v) => {
                    st.outcome(if o == r { "unchanged-agrees" } else { "rewritten-agrees" });
                    if o != r {
                        st.nontrivial(&(r, ei, extra_envs.len()));
                        if r.leaves() >= 3 {
                            st.sample(json!({"R": r.short(), "optimised": o.short(), "env": env_desc(ctx), "value": ctx.t(v).short()}));
                        }
                    }
                }
                NOut::Limit => st.outcome("limit"),
                other => {
                    st.outcome("DISAGREES");
                    let got = match other {
                        NOut::Val(g) => format!("value {}", ctx.t(g).short()),
                        NOut::Err(e) => format!("error {}", e),
                        NOut::Limit => "limit".to_string(),
                    };
                    let replay = json!({"kind": "c04", "prog": r.hex(), "env": env_replay(ctx), "entry": entry, "history": replay_extra});
                    st.violation(
                        &c04_full_sig(sub, "changes-result", r),
                        format!("{}: {} -> {} ; in env {} original gives {}, optimised gives {}", entry, r.short(), o.short(), env_desc(ctx), ctx.t(v).short(), got),
                        r.bytes().len(),
                        replay,
                    );
                }
            },
            _ => unreachable!(),
        }
    }
}

fn wrap_chain(p: T, chain: &[bool]) -> T {
    // chain[i] true = r, false = f; applied innermost first
    let mut t = p;
    for c in chain {
        t = T::list(&[T::a(&[if *c { 6 } else { 5 }]), t]);
    }
    t
}

pub fn c04(thorough: bool, replay: Option<String>) -> i32 {
    let mut rep = Report::new("C04", if thorough { "thorough" } else { "quick" }, "exploration");
    rep.rule = "for every CLVM expression R of the stated finite sets and every environment E of its environment family: if clvmr evaluates R in E to v, then optimize_sexp (and the rich-value wrapper run_optimizer) must accept R and its output must evaluate to v in E. Nothing is required when R fails in E. \
        non-trivial = distinct (R, E) pairs where R returned a value AND the optimiser actually rewrote R"
        .to_string();
    rep.assumptions = vec!["clvmr is the consensus evaluator".to_string(), "the optimiser is given DefaultProgramRunner as its evaluation callback, as compile_clvm_text does for modern programs".to_string()];
    let mut n0 = 0;
    let small_envs = vec![T::nil(), complete_tree(3, &mut n0), T::list(&[T::p(T::int(7), T::int(8)), T::a(&[0]), T::int(5)])];
    let mut n1 = 0;
    let big = complete_tree(if thorough { 10 } else { 9 }, &mut n1);
    let lspine = spine(90, &|_| false);
    let rspine = spine(90, &|_| true);
    let zig = spine(90, &|i| i % 2 == 0);
    let zag = spine(90, &|i| i % 2 == 1);
    if let Some(path) = replay {
        let v: serde_json::Value = serde_json::from_str(&std::fs::read_to_string(&path).expect("read replay")).expect("json");
        let r = &v["replay"];
        let mut st = Stats::new();
        let p = t_from_hex(r["prog"].as_str().unwrap());
        let fixed_all = vec![big.clone(), lspine.clone(), rspine.clone(), zig.clone(), zag.clone()];
        let es = r["env"].as_str().unwrap();
        let envs: Vec<T> = if let Some(k) = es.strip_prefix("fixed:") { vec![fixed_all[k.parse::<usize>().unwrap().min(4)].clone()] } else { vec![t_from_hex(es)] };
        let mut ctx = Ctx::new(&envs);
        let entry = match r["entry"].as_str().unwrap_or("") {
            "RunOptimizerFixed" => OptEntry::RunOptimizerFixed,
            "RunOptimizerLegacy" => OptEntry::RunOptimizerLegacy,
            _ => OptEntry::OptimizeSexp,
        };
        for _ in 0..2 {
            if let Some(h) = r["history"].as_array() {
                let mut hist: Vec<T> = h.iter().map(|x| t_from_hex(x.as_str().unwrap())).collect();
                hist.push(p.clone());
                let res = optimise_history(&hist).pop().unwrap();
                judge_c04(&mut st, &mut ctx, &p, res, &[], "opt-operator-after-history", r["history"].clone(), "replay");
            } else {
                check_c04(&mut st, &mut ctx, &p, &[], entry, "replay");
            }
        }
        rep.add_sub("replay", "one case", 1, false, false, st);
        return rep.finish();
    }
    let cap = Some(Duration::from_secs(if thorough { 2400 } else { 45 }));

    // (i) all trees
    let leaves = if thorough { 5 } else { 4 };
    let sp = TreeSpace::new(ops_core(), leaves);
    let mut envs_i = small_envs.clone();
    envs_i.push(complete_tree(5, &mut n0));
    let n = sp.total;
    let (st, capped) = par_range(n, 512, cap, || Ctx::new(&envs_i), |ctx, st, i| check_c04(st, ctx, &sp.get(i), &[], OptEntry::OptimizeSexp, "trees"));
    rep.add_sub("trees/optimize_sexp", &format!("every tree with 1..{} leaves over the 16-atom core alphabet, each in 4 environments", leaves), n, true, capped, st);
    let sp3 = TreeSpace::new(ops_core(), 3);
    let n = sp3.total * 2;
    let (st, capped) = par_range(n, 512, cap, || Ctx::new(&envs_i), |ctx, st, i| check_c04(st, ctx, &sp3.get(i / 2), &[], if i % 2 == 0 { OptEntry::RunOptimizerFixed } else { OptEntry::RunOptimizerLegacy }, "trees-rich"));
    rep.add_sub("trees/run_optimizer", "every tree with 1..3 leaves through compiler::optimize::run_optimizer in both integer modes", n, true, capped, st);

    // (i') apply-of-quoted family: (a (q . S) ARGS) with S a small tree, ARGS from a menu
    let sq = TreeSpace::new(ops_core(), if thorough { 4 } else { 3 });
    let arg_menu: Vec<T> = vec![
        T::a(&[1]), T::a(&[2]), T::a(&[3]), T::a(&[5]),
        T::list(&[T::a(&[4]), T::a(&[2]), T::a(&[3])]),
        T::list(&[T::a(&[4]), quote(T::int(99)), T::a(&[1])]),
        T::list(&[T::a(&[4]), T::a(&[1]), quote(T::nil())]),
        quote(T::list(&[T::int(41), T::int(42)])),
        T::list(&[T::a(&[6]), T::a(&[1])]),
    ];
    // ARGS whose components are QUOTED DATA shaped like code: a change of variables may select such a component, and it
    // must stay data
    let mut arg_menu = arg_menu;
    let code_like: Vec<T> = vec![
        T::list(&[T::list(&[T::a(&[6]), T::a(&[1])])]),                                                   // ((r 1))
        T::list(&[T::list(&[T::a(&[2]), T::nil(), T::a(&[1])]), T::p(T::a(&[1]), T::nil())]),          // ((a 0 1) (q . 0))
        T::list(&[T::list(&[T::a(&[5]), T::a(&[1])]), T::int(7)]),                                       // ((f 1) 7)
        T::list(&[T::p(T::a(&[1]), T::nil()), T::list(&[T::a(&[4]), T::a(&[1]), T::a(&[1])])]),          // ((q) (c 1 1))
    ];
    for d in &code_like {
        arg_menu.push(T::list(&[T::a(&[4]), quote(d.clone()), T::a(&[1])]));
        arg_menu.push(T::list(&[T::a(&[4]), T::a(&[1]), quote(d.clone())]));
    }
    let nm = arg_menu.len() as u64;
    let n = sq.total * nm;
    let (st, capped) = par_range(n, 256, cap, || Ctx::new(&envs_i), |ctx, st, i| {
        let r = T::list(&[T::a(&[2]), quote(sq.get(i / nm)), arg_menu[(i % nm) as usize].clone()]);
        check_c04(st, ctx, &r, &[], OptEntry::OptimizeSexp, "apply-quoted");
    });
    rep.add_sub("apply-quoted", "(a (q . S) ARGS) for every tree S with 1..3 (thorough 4) leaves over the core alphabet x 17 ARGS forms (paths, conses of paths/constants, quoted list, (r 1), and conses with a quoted component that is data shaped like code: ((r 1)), ((a 0 1) (q . 0)), ((f 1) 7), ((q) (c 1 1)))", n, true, capped, st);

    // (i-ops) every named operator of the latest table, with constant and with path arguments, in evaluated positions
    {
        let table = chialisp::classic::clvm::keyword_to_atom(chialisp::classic::clvm::OPERATORS_LATEST_VERSION);
        let mut ops: Vec<(String, Vec<u8>)> = table.iter().map(|(n, a)| (n.clone(), a.clone())).collect();
        ops.sort();
        let mut rs: Vec<(T, T)> = vec![];
        for (name, opcode) in &ops {
            if ["q", "a", "x", "softfork"].contains(&name.as_str()) {
                continue;
            }
            if let Some(args) = crate::optab::op_args(name) {
                let consts: Vec<T> = args.iter().map(|a| quote(a.clone())).collect();
                let paths: Vec<T> = [2u8, 5, 11].iter().take(args.len()).map(|p| T::a(&[*p])).collect();
                let mut c_items = vec![T::A(opcode.clone())];
                c_items.extend(consts.clone());
                let r_const = T::list(&c_items);
                let mut p_items = vec![T::A(opcode.clone())];
                p_items.extend(paths.clone());
                let r_path = T::list(&p_items);
                let env = T::list(&args);
                rs.push((r_const.clone(), env.clone()));
                rs.push((T::list(&[T::a(&[4]), r_const.clone(), T::a(&[1])]), env.clone()));
                rs.push((T::list(&[T::a(&[3]), r_const.clone(), quote(T::int(1)), quote(T::int(2))]), env.clone()));
                rs.push((r_path.clone(), env.clone()));
                let inner = T::list(&[T::a(&[4]), r_path.clone(), T::a(&[7])]);
                let mut new_env = T::a(&[1]);
                for a in args.iter().rev() {
                    new_env = T::list(&[T::a(&[4]), quote(a.clone()), new_env]);
                }
                rs.push((T::list(&[T::a(&[2]), quote(inner), new_env]), env.clone()));
                rs.push((T::list(&[T::a(&[4]), T::list(&[T::a(&[4]), r_const, T::nil()]), quote(T::int(5))]), env));
            }
        }
        let n = rs.len() as u64;
        let (st, capped) = par_range(n, 4, cap, || Ctx::new(&[]), |ctx, st, i| {
            let (r, e) = &rs[i as usize];
            check_c04(st, ctx, r, std::slice::from_ref(e), OptEntry::OptimizeSexp, "operators");
            check_c04(st, ctx, r, std::slice::from_ref(e), OptEntry::RunOptimizerFixed, "operators");
        });
        rep.add_sub("operators", &format!("every value-returning operator of the latest keyword table ({} names) with valid constant arguments and with path arguments, alone, under c / i, nested, and re-rooted through (a (q . X) ENV); optimize_sexp and run_optimizer", ops.len()), n, true, capped, st);
    }

    // (i'') well-formed nested expressions
    let es = ExprSpace::new();
    let envs_e = vec![T::list(&[T::int(11), T::int(12), T::int(13)]), T::p(T::p(T::int(21), T::int(22)), T::p(T::nil(), T::int(24))), T::list(&[T::list(&[T::int(1), T::int(2)]), T::list(&[T::int(3)])])];
    let stride = if thorough { 1 } else { 7 };
    let n = es.total / stride;
    let (st, capped) = par_range(n, 256, cap, || Ctx::new(&envs_e), |ctx, st, i| check_c04(st, ctx, &es.get(i * stride), &[], OptEntry::OptimizeSexp, "expr"));
    rep.add_sub("expressions", &format!("well-formed expressions of nesting depth <= 2 ({} in total; {}), each in 3 environments", es.total, if stride == 1 { "all".to_string() } else { format!("every {}th by index, a fixed sub-enumeration", stride) }), n, stride == 1, capped, st);

    // (i-memo) histories of optimiser calls sharing one memo (the `opt` operator of one CompilerOperators instance)
    {
        // alphabet: every tree with <= 2 leaves, plus every tree with <= 3 (thorough 4) leaves that the optimiser rewrites
        let mut alpha: Vec<T> = vec![];
        let s2 = TreeSpace::new(ops_core(), 2);
        for i in 0..s2.total {
            alpha.push(s2.get(i));
        }
        let sk = TreeSpace::new(ops_core(), if thorough { 4 } else { 3 });
        for i in s2.total..sk.total {
            let t = sk.get(i);
            if let Ok(o) = optimise(&t, OptEntry::OptimizeSexp) {
                if o != t {
                    alpha.push(t);
                }
            }
        }
        let na = alpha.len() as u64;
        let n = na * na;
        let (st, capped) = par_range(n, 512, cap, || Ctx::new(&envs_i), |ctx, st, i| {
            let (first, second) = (&alpha[(i / na) as usize], &alpha[(i % na) as usize]);
            let mut res = optimise_history(&[first.clone(), second.clone()]);
            let r2 = res.pop().unwrap();
            judge_c04(st, ctx, second, r2, &[], "opt-operator-after-history", json!([first.hex()]), "memo-history");
        });
        rep.add_sub("memo-histories", &format!("every ordered pair (R1, R2) over {} trees (all with <= 2 leaves, and every tree with <= {} leaves that the optimiser rewrites): (opt R1) then (opt R2) on one CompilerOperators instance, i.e. with the optimiser memo shared as during one classic compilation; R2's result is judged in 4 environments", na, if thorough { 4 } else { 3 }), n, true, capped, st);
    }

    // (ii) path family
    let (paths, firsts) = path_family(thorough);
    // wrapper chains
    let mut chains: Vec<Vec<bool>> = vec![vec![]];
    let maxall = if thorough { 6 } else { 3 };
    for l in 1..=maxall {
        for m in 0..(1u32 << l) {
            chains.push((0..l).map(|k| (m >> k) & 1 == 1).collect());
        }
    }
    let longs: Vec<usize> = if thorough { (maxall + 1..=80).collect() } else { vec![4, 8, 17, 40] };
    for l in longs {
        chains.push(vec![false; l]);
        chains.push(vec![true; l]);
        chains.push((0..l).map(|k| k % 2 == 0).collect());
        chains.push((0..l).map(|k| k % 2 == 1).collect());
    }
    let nroot = 6u64;
    let nch = chains.len() as u64;
    let n = paths.len() as u64 * nch * nroot;
    let fixed_envs = vec![big.clone(), lspine.clone(), rspine.clone(), zig.clone(), zag.clone()];
    let (st, capped) = par_range(n, 64, cap, || Ctx::new(&fixed_envs), |ctx, st, i| {
        let p = &paths[(i / (nch * nroot)) as usize];
        let chain = &chains[((i / nroot) % nch) as usize];
        let w = wrap_chain(T::A(p.clone()), chain);
        let root = i % nroot;
        let r = match root {
            0 => w,
            1 => T::list(&[T::a(&[2]), quote(w), T::a(&[1])]),
            2 => T::list(&[T::a(&[2]), quote(w), T::a(&[2])]),
            3 => T::list(&[T::a(&[2]), quote(w), T::a(&[3])]),
            4 => T::list(&[T::a(&[2]), quote(w), T::list(&[T::a(&[4]), T::a(&[2]), T::a(&[3])])]),
            _ => T::list(&[T::a(&[2]), quote(w), T::list(&[T::a(&[4]), quote(T::int(99)), T::a(&[1])])]),
        };
        let mut extra = vec![];
        if let Some(bits) = path_bits(p) {
            if bits.len() <= 80 {
                let tailored = env_along(&bits, 5);
                extra.push(match root {
                    2 => T::p(tailored.clone(), T::int(1)),
                    3 => T::p(T::int(1), tailored.clone()),
                    _ => tailored.clone(),
                });
            }
        }
        check_c04(st, ctx, &r, &extra, OptEntry::OptimizeSexp, "paths");
    });
    rep.add_sub(
        "paths",
        &format!("{} path atoms (all 1-byte, 2-byte with first byte in {} values x all second bytes, lengths 3..9 over boundary patterns) x {} f/r wrapper chains (all of length 0..{}, homogeneous/alternating up to 80) x 6 re-rootings; environments: complete tree, four 90-deep spines, and trees tailored to the path's bits", paths.len(), firsts.len(), chains.len(), maxall),
        n,
        true,
        capped,
        st,
    );
    rep.finish()
}

// ---------------------------------------------------------------------------
/// Well-formed CLVM expressions of nesting depth <= 2 (random access by index).
/// Leaves: paths 1, 2, 5 and three quoted constants. Depth 1: f r l c + = i a over leaves.
/// Depth 2: unary/binary operators over (leaves + depth 1), `i` with one nested argument.
pub struct ExprSpace {
    pub d1: Vec<T>,
    pub nl: usize,
    pub total: u64,
}

impl ExprSpace {
    pub fn new() -> ExprSpace {
        let op = |b: u8| T::a(&[b]);
        let leaves: Vec<T> = vec![T::a(&[1]), T::a(&[2]), T::a(&[5]), quote(T::int(7)), quote(T::nil()), quote(T::p(T::int(3), T::int(4)))];
        let nl = leaves.len();
        let mut d1 = leaves.clone();
        for l in &leaves {
            for o in [5u8, 6, 7] {
                d1.push(T::list(&[op(o), l.clone()]));
            }
        }
        for a in &leaves {
            for b in &leaves {
                for o in [4u8, 16, 9] {
                    d1.push(T::list(&[op(o), a.clone(), b.clone()]));
                }
                d1.push(T::list(&[op(2), quote(a.clone()), b.clone()]));
                for c in &leaves {
                    d1.push(T::list(&[op(3), a.clone(), b.clone(), c.clone()]));
                }
            }
        }
        let n = d1.len() as u64;
        let total = 3 * n + 4 * n * n + 3 * n * (nl * nl) as u64;
        ExprSpace { d1, nl, total }
    }
    pub fn get(&self, mut i: u64) -> T {
        let op = |b: u8| T::a(&[b]);
        let n = self.d1.len() as u64;
        if i < 3 * n {
            return T::list(&[op([5u8, 6, 7][(i / n) as usize]), self.d1[(i % n) as usize].clone()]);
        }
        i -= 3 * n;
        if i < 4 * n * n {
            let o = i / (n * n);
            let a = &self.d1[((i / n) % n) as usize];
            let b = &self.d1[(i % n) as usize];
            return match o {
                0 => T::list(&[op(4), a.clone(), b.clone()]),
                1 => T::list(&[op(16), a.clone(), b.clone()]),
                2 => T::list(&[op(9), a.clone(), b.clone()]),
                _ => T::list(&[op(2), quote(a.clone()), b.clone()]),
            };
        }
        i -= 4 * n * n;
        let nl = self.nl as u64;
        let pos = i / (n * nl * nl);
        let d = &self.d1[((i / (nl * nl)) % n) as usize];
        let x = &self.d1[((i / nl) % nl) as usize];
        let y = &self.d1[(i % nl) as usize];
        match pos {
            0 => T::list(&[op(3), d.clone(), x.clone(), y.clone()]),
            1 => T::list(&[op(3), x.clone(), d.clone(), y.clone()]),
            _ => T::list(&[op(3), x.clone(), y.clone(), d.clone()]),
        }
    }
}
