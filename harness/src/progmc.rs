//! Program-level engines over the generated surface-language programs:
//! C01 (compiled code computes what the source means).
use crate::gen::*;
use crate::lang::*;
use crate::oracle::{consensus, Out};
use crate::par::par_range;
use crate::report::{Report, Stats};
use crate::subject::*;
use crate::tree::*;
use serde_json::json;
use std::time::Duration;

use chialisp::compiler::dialect::{AcceptedDialect, KNOWN_DIALECTS};

pub fn dialect_of(sigil: &str) -> AcceptedDialect {
    KNOWN_DIALECTS.get(sigil).expect("known sigil").accepted.clone()
}

/// The option sets the entry points derive for a sigil: `run` without -O, and `run -O` / the library entry.
pub fn entry_option_sets(sigil: &str) -> Vec<(&'static str, ModernOpts)> {
    let d = dialect_of(sigil);
    let stepping = d.stepping.unwrap_or(21);
    vec![
        ("run", ModernOpts { optimize: stepping > 22, frontend_opt: stepping == 22, post_opt: false, ..Default::default() }),
        ("run-O/library", ModernOpts { optimize: true, frontend_opt: stepping == 22, post_opt: true, ..Default::default() }),
    ]
}

pub fn reference(prog: &Prog, args: &T) -> Result<T, NoValue> {
    Interp::new(prog).run(args)
}

pub struct CaseResult {
    pub compiled: bool,
    pub any_reference_value: bool,
}

pub fn short_sigil(s: &str) -> &str {
    match s {
        "*standard-cl-21*" => "cl21",
        "*strict-cl-21*" => "strict21",
        "*standard-cl-22*" => "cl22",
        "*standard-cl-23*" => "cl23",
        "*standard-cl-23.1*" => "cl23.1",
        "*standard-cl-24*" => "cl24",
        _ => s,
    }
}

fn strip_variant(t: &str) -> String {
    t.trim_end_matches(|c: char| c == '0' || c == '1').to_string()
}

fn all_names(p: &Prog) -> Vec<String> {
    fn pe(e: &E, out: &mut Vec<String>) {
        match e {
            E::Var(n) => out.push(n.clone()),
            E::Lit(_, _) | E::Quote(_) | E::QuoteSym(_) => {}
            E::Prim(_, a) | E::List(a) | E::MacroCall(_, a) => a.iter().for_each(|x| pe(x, out)),
            E::If(c, t, f) => {
                pe(c, out);
                pe(t, out);
                pe(f, out);
            }
            E::Call(_, a, r) => {
                a.iter().for_each(|x| pe(x, out));
                if let Some(r) = r {
                    pe(r, out);
                }
            }
            E::Let(_, bs, b) => {
                bs.iter().for_each(|(n, x)| {
                    out.push(n.clone());
                    pe(x, out)
                });
                pe(b, out);
            }
            E::Assign(_, bs, b) => {
                bs.iter().for_each(|(p, x)| {
                    p.names(out);
                    pe(x, out)
                });
                pe(b, out);
            }
            E::Lambda(c, p, b) => {
                out.extend(c.iter().cloned());
                p.names(out);
                pe(b, out);
            }
            E::Apply(f, a) => {
                pe(f, out);
                pe(a, out);
            }
            E::ApplyMod(p, a) => {
                out.extend(all_names(p));
                pe(a, out);
            }
        }
    }
    let mut out = vec![];
    p.params.names(&mut out);
    for h in &p.helpers {
        match h {
            Helper::Fun { params, body, .. } => {
                params.names(&mut out);
                pe(body, &mut out);
            }
            Helper::Const { body, .. } => pe(body, &mut out),
            Helper::Macro { params, template, .. } => {
                out.extend(params.iter().cloned());
                pe(template, &mut out);
            }
            _ => {}
        }
    }
    pe(&p.body, &mut out);
    out.sort();
    out.dedup();
    out
}

/// F27's arithmetic symptom: the build's value is what the SOURCE means when every parameter is bound to the
/// atom spelling its own NAME (the evaluator replaced variables by their names and folded the rest)
fn equals_reference_on_names(prog: &Prog, got: &T) -> bool {
    fn fill(p: &Pat) -> T {
        match p {
            Pat::Name(n) => T::a(n.as_bytes()),
            Pat::Nil => T::nil(),
            Pat::Cons(a, b) => T::p(fill(a), fill(b)),
            Pat::At(_, s) => fill(s),
        }
    }
    matches!(reference(prog, &fill(&prog.params)), Ok(v) if v == *got)
}

fn leaks_a_name(v: &T, names: &[String]) -> bool {
    match v {
        T::A(b) => {
            let s = String::from_utf8_lossy(b);
            s.contains("_$_") || names.iter().any(|n| n.as_bytes() == &b[..])
        }
        T::P(x, y) => leaks_a_name(x, names) || leaks_a_name(y, names),
    }
}

fn body_has_binder(e: &E) -> bool {
    match e {
        E::Let(_, _, _) | E::Assign(_, _, _) => true,
        E::Prim(_, a) | E::List(a) | E::MacroCall(_, a) => a.iter().any(body_has_binder),
        E::If(c, t, f) => body_has_binder(c) || body_has_binder(t) || body_has_binder(f),
        E::Call(_, a, r) => a.iter().any(body_has_binder) || r.as_ref().map(|r| body_has_binder(r)).unwrap_or(false),
        E::Lambda(_, _, b) => body_has_binder(b),
        E::Apply(f, a) => body_has_binder(f) || body_has_binder(a),
        E::ApplyMod(_, a) => body_has_binder(a),
        _ => false,
    }
}

fn pat_has_at(p: &Pat) -> bool {
    match p {
        Pat::At(_, _) => true,
        Pat::Cons(a, b) => pat_has_at(a) || pat_has_at(b),
        _ => false,
    }
}

/// Signature of a C01 disagreement. Root-cause classes that are recorded as known findings are
/// recognised by program features + dialect + symptom; everything else is named by construct
/// family, dialect and option set.
fn contains_quoted_64(t: &T) -> bool {
    match t {
        T::P(a, b) => (**a == T::int(1) && **b == T::int(64)) || contains_quoted_64(a) || contains_quoted_64(b),
        _ => false,
    }
}

fn c01_sig(case: &Case, sigil: &str, optname: &str, kind: &str, got: Option<&Out>, code: Option<&T>) -> String {
    let d = dialect_of(sigil);
    let text = case.prog.text();
    if kind == "wrong-result" {
        if sigil == "*standard-cl-22*" {
            let names = all_names(&case.prog);
            let leaked_value = matches!(got, Some(Out::Val(v)) if leaks_a_name(v, &names) || equals_reference_on_names(&case.prog, v));
            let leaked_code = code.map(|c| leaks_a_name(c, &names)).unwrap_or(false);
            if leaked_value || leaked_code {
                return "cl22-frontend-optimiser/variable-replaced-by-its-name".to_string();
            }
        }
        if d.stepping.map(|s| s >= 23).unwrap_or(false) && text.matches("(x 13)").count() >= 2 && matches!(got, Some(Out::Err(e)) if e.contains("raise")) {
            // the CSE pass binds a raise that occurs in two branches guarded by the same condition text
            // in an eagerly evaluated let above those conditions
            return "cse/repeated-raise-under-repeated-condition-lifted".to_string();
        }
        if d.stepping.map(|s| s >= 23).unwrap_or(false) && case.tags.first().map(|t| t.starts_with("cse/if-tree")).unwrap_or(false) && matches!(got, Some(Out::Err(_))) {
            // F32 family: CSE computes a subexpression repeated in several branches above conditions that do not
            // dominate all of its uses; when it can raise, the optimised program raises where the source returns a value
            return "cse/repeated-raising-subexpression-lifted-above-its-guards".to_string();
        }
        if d.stepping.map(|s| s >= 23).unwrap_or(false) && case.tags.first().map(|t| t.starts_with("data/bare-")).unwrap_or(false) {
            // F35: null_optimization is entered with spine=true on a body that is itself a quoted constant and
            // rewrites the sub-list (1) of the DATA to (); symptom: the value comes back without any (1)
            // every car-position occurrence of (1) in the payload replaced by ()
            // the rewrites the post-codegen passes apply to CODE, applied to the elements of the payload:
            // (1) -> ()   and   (2 (1 . X) 1) -> X
            fn rw_elem(a: &T) -> T {
                if let T::P(h, tl) = a {
                    if **h == T::int(1) && tl.is_nil() {
                        return T::nil();
                    }
                    if **h == T::int(2) {
                        if let T::P(q, rest) = &**tl {
                            if let (T::P(q1, x), T::P(one, end)) = (&**q, &**rest) {
                                if **q1 == T::int(1) && **one == T::int(1) && end.is_nil() {
                                    return rw_elem(x);
                                }
                            }
                        }
                    }
                }
                rw(a)
            }
            fn rw(t: &T) -> T {
                match t {
                    T::P(a, b) => T::p(rw_elem(a), rw(b)),
                    _ => t.clone(),
                }
            }
            fn contains(t: &T, sub: &T) -> bool {
                t == sub || matches!(t, T::P(a, b) if contains(a, sub) || contains(b, sub))
            }
            fn payload(e: &E) -> Option<&T> {
                if let E::Quote(d) = e {
                    Some(d)
                } else {
                    None
                }
            }
            let d = payload(&case.prog.body).or_else(|| case.prog.helpers.iter().find_map(|h| if let Helper::Fun { body, .. } = h { payload(body) } else { None }));
            // the rewrites are applied to some or all of the elements (the passes stop at different depths in the
            // main body and in a function body): the value must contain the payload modulo exactly these rewrites
            fn contains_mod(t: &T, d: &T, nd: &T) -> bool {
                (t != d && rw(t) == *nd) || matches!(t, T::P(a, b) if contains_mod(a, d, nd) || contains_mod(b, d, nd))
            }
            if matches!((got, d), (Some(Out::Val(v)), Some(d)) if rw(d) != *d && (contains(v, &rw(d)) || contains_mod(v, d, &rw(d)))) {
                return "optimiser/(1)-inside-a-bare-quoted-body-becomes-nil".to_string();
            }
        }
        if sigil == "*strict-cl-21*" && optname != "run" && code.map(|c| contains_quoted_64(c)).unwrap_or(false) {
            return "strict-cl21-optimised/@-becomes-(q . 64)".to_string();
        }
        if !d.int_fix && (text.contains(" 0x00 ") || text.contains(" 0x0000 ") || text.contains(" 0x00)") || text.contains(" 0x0000)")) {
            return format!("legacy-int-mode/all-zero-literal/{}", short_sigil(sigil));
        }
        for h in &case.prog.helpers {
            if let Helper::Fun { params, body, .. } = h {
                let _ = body;
                if pat_has_at(params) {
                    return "function/@-capture-in-parameter-list".to_string();
                }
            }
        }
    }
    let t0 = strip_variant(&case.tags.first().cloned().unwrap_or_default());
    let t1 = strip_variant(&case.tags.get(1).cloned().unwrap_or_default());
    format!("{}/{}+{}/{}/{}", kind, t0, t1, short_sigil(sigil), optname)
}

pub fn check_c01_case(st: &mut Stats, case: &Case, sub: &str) {
    let sigil = case.prog.sigil.expect("modern programs carry a sigil");
    let text = case.prog.text();
    let refs: Vec<Result<T, NoValue>> = case.args.iter().map(|a| reference(&case.prog, a)).collect();
    let nvals = refs.iter().filter(|r| r.is_ok()).count();
    for (optname, o) in entry_option_sets(sigil) {
        st.eval();
        let replay = json!({"kind": "c01", "text": text, "sigil": sigil, "opts": optname, "args": case.args.iter().map(|a| a.hex()).collect::<Vec<_>>(), "expect": refs.iter().map(|r| r.as_ref().ok().map(|t| t.hex())).collect::<Vec<_>>()});
        match modern_compile(&text, dialect_of(sigil), &o) {
            Err(e) => {
                if e.is_panic() {
                    st.outcome("compile-PANIC");
                    st.violation(&c01_sig(case, sigil, optname, "compile-panic", None, None), format!("{} [{}]: compiler panics: {}", text, optname, e.msg()), text.len(), replay);
                } else {
                    st.outcome(&format!("rejected/{}", short_sigil(sigil)));
                    st.count(&format!("rejected[{}]", e.msg().chars().take(60).collect::<String>()), 1);
                }
            }
            Ok(c) => {
                st.outcome(&format!("accepted/{}", short_sigil(sigil)));
                for (a, r) in case.args.iter().zip(refs.iter()) {
                    let v = match r {
                        Ok(v) => v,
                        Err(_) => {
                            st.count("reference-has-no-value(no claim)", 1);
                            continue;
                        }
                    };
                    match consensus(&c.code, a) {
                        Out::Val(g) if g == *v => {
                            st.count("agree", 1);
                            st.nontrivial(&(&text, optname, a));
                            st.sample(json!({"sub": sub, "program": text, "opts": optname, "args": a.short(), "value": v.short()}));
                        }
                        Out::Limit => st.count("cost-limit(no claim)", 1),
                        other => {
                            st.outcome("DISAGREE");
                            st.violation(
                                &c01_sig(case, sigil, optname, "wrong-result", Some(&other), Some(&c.code)),
                                format!("{} [{} / {}] on {}: source means {}, compiled code gives {} (code {})", text, short_sigil(sigil), optname, a.short(), v.short(), other.short(), c.code.short()),
                                text.len(),
                                replay.clone(),
                            );
                        }
                    }
                }
            }
        }
    }
    if nvals == 0 {
        st.count("programs-without-any-reference-value", 1);
    }
}

pub struct Spaces {
    pub scope: Vec<(Vec<(usize, usize)>, NamePolicy)>,
    pub pats: Vec<(Pat, &'static str)>,
    pub kernel: Vec<(E, usize)>,
}

pub fn build_spaces(thorough: bool) -> Spaces {
    let k = if thorough { 3 } else { 2 };
    let chains = scope_chains(k);
    let mut scope = vec![];
    for c in &chains {
        for p in [NamePolicy::Fresh, NamePolicy::SameEverywhere, NamePolicy::ShadowParams] {
            // quick: length-2 chains with equal binding variants only; shadowing policies on half of those
            if !thorough && c.len() >= 2 && (c[0].1 != c[1].1 || (p != NamePolicy::Fresh && c[0].1 == 1)) {
                continue;
            }
            scope.push((c.clone(), p));
        }
    }
    let flat: Vec<usize> = if thorough { (1..=40).collect() } else { vec![1, 2, 3, 8, 15, 16, 17, 32, 40] };
    let mut pats = vec![];
    for p in param_patterns(if thorough { 4 } else { 3 }, &flat) {
        for kind in PARAM_KINDS {
            pats.push((p.clone(), kind));
        }
        // identifier policy: operator-lookalike lower-case names, two rotations (q first / r first …)
        let mut n = vec![];
        p.names(&mut n);
        if n.len() <= 4 {
            for rot in 0..(if thorough { 8 } else { 1 }) {
                if let Some(q) = lookalike_pattern(&p, rot) {
                    for kind in ["main", "defun-rest", "inline-rest", "lambda"] {
                        pats.push((q.clone(), kind));
                    }
                }
            }
        }
    }
    let mut kernel = vec![];
    let ke = kernel_exprs(if thorough { 2 } else { 1 });
    for e in ke {
        for pos in 0..(if thorough { 3 } else { 1 }) {
            kernel.push((e.clone(), pos));
        }
    }
    Spaces { scope, pats, kernel }
}

pub fn c01(thorough: bool, replay: Option<String>) -> i32 {
    let mut rep = Report::new("C01", if thorough { "thorough" } else { "quick" }, "exploration");
    rep.rule = "every program of the generated sub-spaces (SCOPE binder chains, PARAMS parameter shapes, OPLIT operators/literals per position, CALLS call graphs and rest arguments, KERNEL small expressions) x 6 dialect sigils is rendered to text from the harness's own AST, compiled by compile_file under both option sets the entry points derive for that sigil (run; run -O / library incl. the classic post-optimiser), and run by clvmr on 2-3 argument valuations. \
        One-directional oracle: whenever the harness's reference interpreter (call-by-value, operators applied by clvmr) returns v, the compiled program must return exactly v; programs the compiler rejects make no claim (counted per dialect). non-trivial = distinct (program text, option set, argument) triples on which the reference returned a value and the compiled code agreed"
        .to_string();
    rep.assumptions = vec![
        "the reference interpreter in harness/src/lang.rs states the language's call-by-value meaning for the generated fragment".to_string(),
        "clvmr defines operator semantics and is the consensus evaluator".to_string(),
    ];
    if let Some(path) = replay {
        let v: serde_json::Value = serde_json::from_str(&std::fs::read_to_string(&path).expect("read replay")).expect("json");
        let r = &v["replay"];
        let text = r["text"].as_str().unwrap().to_string();
        let sigil = r["sigil"].as_str().unwrap();
        let mut st = Stats::new();
        for _ in 0..2 {
            for (optname, o) in entry_option_sets(sigil) {
                if Some(optname) != r["opts"].as_str() {
                    continue;
                }
                st.eval();
                match modern_compile(&text, dialect_of(sigil), &o) {
                    Ok(c) => {
                        for (a, e) in r["args"].as_array().unwrap().iter().zip(r["expect"].as_array().unwrap().iter()) {
                            if let Some(eh) = e.as_str() {
                                let a = crate::clvmmc::t_from_hex(a.as_str().unwrap());
                                let want = crate::clvmmc::t_from_hex(eh);
                                let got = consensus(&c.code, &a);
                                if got != Out::Val(want.clone()) {
                                    st.violation("replay/wrong-result", format!("{} [{}] on {}: expected {}, got {}", text, optname, a.short(), want.short(), got.short()), text.len(), r.clone());
                                }
                            }
                        }
                    }
                    Err(e) => eprintln!("compile error: {}", e.msg()),
                }
            }
        }
        rep.add_sub("replay", "one case", 1, false, false, st);
        return rep.finish();
    }
    let cap = Some(Duration::from_secs(if thorough { 3000 } else { 50 }));
    let sp = build_spaces(thorough);
    let ns = SIGILS.len() as u64;

    let n = sp.scope.len() as u64 * ns;
    // diagnostic only (never set by a registered command): shorten the wall cap of the largest sub-space
    let scope_cap = std::env::var("VERIF_DIAG_SCOPE_CAP_SECS").ok().and_then(|v| v.parse::<u64>().ok()).map(Duration::from_secs).or(cap);
    let (st, capped) = par_range(n, 16, scope_cap, || (), |_, st, i| {
        let (chain, pol) = &sp.scope[(i / ns) as usize];
        let case = scope_case(chain, *pol, Some(SIGILS[(i % ns) as usize]));
        check_c01_case(st, &case, "SCOPE");
    });
    rep.add_sub("SCOPE", &format!("binder chains of length 1..{} over 13 binders x 2 binding variants x name policies (fresh, same name in every scope, shadowing the parameters) x 6 sigils x 2 option sets x 2 valuations", if thorough { 3 } else { 2 }), n, true, capped, st);

    let n = sp.pats.len() as u64 * ns;
    let (st, capped) = par_range(n, 16, cap, || (), |_, st, i| {
        let (p, kind) = &sp.pats[(i / ns) as usize];
        if let Some(case) = params_case(p, kind, Some(SIGILS[(i % ns) as usize])) {
            check_c01_case(st, &case, "PARAMS");
        }
    });
    rep.add_sub("PARAMS", &format!("every parameter tree with <= {} leaves (names, (), cons, (@ n p)), flat lists and improper tails of {} lengths, in 6 function kinds (main, defun/inline via &rest, lambda, defun/inline positional) x 6 sigils x 2 option sets x 2-3 valuations", if thorough { 4 } else { 3 }, if thorough { "1..40".to_string() } else { "9 boundary".to_string() }), n, true, capped, st);

    let mut oplit: Vec<Case> = vec![];
    for s in SIGILS {
        oplit.extend(oplit_cases(Some(s)));
    }
    let n = oplit.len() as u64;
    let (st, capped) = par_range(n, 16, cap, || (), |_, st, i| check_c01_case(st, &oplit[i as usize], "OPLIT"));
    rep.add_sub("OPLIT", "every literal of the boundary set and every value-returning operator (on parameters and on constants), quoted data and quoted symbols, in 6 positions (main body, function argument, inline argument, defconst, macro argument, let binding) x 6 sigils x 2 option sets x 3 valuations", n, true, capped, st);

    let mut data: Vec<Case> = vec![];
    let data_positions: Vec<&str> = if thorough { OPLIT_POSITIONS.to_vec() } else { vec!["main-body", "defconst"] };
    for s in SIGILS {
        data.extend(lookalike_cases(Some(s), thorough, &data_positions));
    }
    let n = data.len() as u64;
    let (st, capped) = par_range(n, 16, cap, || (), |_, st, i| check_c01_case(st, &data[i as usize], "DATA"));
    rep.add_sub("DATA", &format!("quoted constants whose payload looks like code: every row, ordered pair of rows (as a list and as a cons){} over {} code-like rows ((5 100) (6 200) (1 . 100) (2 100 200) (4 100 200) (5 1) 7 ...), in {} positions x 6 sigils x 2 option sets x 3 valuations", if thorough { " and triple" } else { "" }, if thorough { 13 } else { 7 }, data_positions.len()), n, true, capped, st);

    let mut calls: Vec<Case> = vec![];
    for s in SIGILS {
        calls.extend(calls_cases(Some(s), if thorough { 3 } else { 2 }));
        calls.extend(nested_cases(Some(s)));
        calls.extend(many_helpers_cases(Some(s), if thorough { 16 } else { 9 }));
        calls.extend(cse_cases(Some(s), thorough));
        calls.extend(literal_one_cases(Some(s)).into_iter().enumerate().filter(|(i, _)| thorough || i % 3 == 0).map(|(_, c)| c));
        calls.extend(let_position_cases(Some(s)).into_iter().enumerate().filter(|(i, _)| thorough || i % 2 == 0).map(|(_, c)| c));
        calls.extend(constcond_cases(Some(s)).into_iter().enumerate().filter(|(i, _)| thorough || i % 2 == 0).map(|(_, c)| c));
        calls.extend(const_graph_cases(Some(s), if thorough { 4 } else { 3 }).into_iter().filter(|c| thorough || c.tags[1].ends_with("order0") || c.tags[1].ends_with("order1")));
    }
    let n = calls.len() as u64;
    let (st, capped) = par_range(n, 8, cap, || (), |_, st, i| check_c01_case(st, &calls[i as usize], "CALLS"));
    rep.add_sub("CALLS", "recursion, mutual recursion, modules with 1..9 (thorough 16) helpers in three kind mixes, a let / assign in 5 positions of a defun / inline body (whole body, argument, under a conditional, binding value, &rest tail) x 4 call forms (positional, &rest tail supplying 1 / 2 / all parameters), conditionals whose condition is a compile-time constant in 5 guises (literal, defconstant, not, nested if selecting nil / zero / one, an inline function of a literal), repeated (possibly raising) subexpressions in every conditional tree of depth <= 2 over two conditions and under 5 binder kinds x 5 non-root contexts, chains of defconst constants depending on each other directly / through a defun / inline / macro, lambdas capturing 1..4 variables (applied directly and through a helper), nested (mod ...) forms applied with `a` (outer helper kind x inner helper kind incl. a reused function name x 4 positions), constant/zero-argument calls inside helpers, every defun/inline assignment of call chains with a &rest tail at every call site, and every (parameters 1..4, given 0..n) combination of a &rest call with missing positional arguments, x 6 sigils x 2 option sets", n, true, capped, st);

    let n = sp.kernel.len() as u64 * ns;
    let (st, capped) = par_range(n, 16, cap, || (), |_, st, i| {
        let (e, pos) = &sp.kernel[(i / ns) as usize];
        check_c01_case(st, &kernel_case(e, *pos, Some(SIGILS[(i % ns) as usize])), "KERNEL");
    });
    rep.add_sub("KERNEL", &format!("every expression of depth <= {} over A, B, a literal, a quoted list, f r c + = list if (with a raise in the untaken branch), placed in {} x 6 sigils", if thorough { 2 } else { 1 }, if thorough { "main / defun body / inline body" } else { "main" }), n, true, capped, st);
    rep.finish()
}

// ---------------------------------------------------------------------------
// C02 — optimisation switches and optimising dialects never change results

const CONFIGS: [(bool, bool, bool); 8] = [(false, false, false), (true, false, false), (false, true, false), (true, true, false), (false, false, true), (true, false, true), (false, true, true), (true, true, true)];

fn cfg_name(c: &(bool, bool, bool)) -> String {
    format!("opt{}fe{}post{}", c.0 as u8, c.1 as u8, c.2 as u8)
}

/// value-semantics group of a sigil
fn group_of(sigil: &str) -> u8 {
    if dialect_of(sigil).int_fix {
        1
    } else {
        0
    }
}

fn has_zero_led_literal(text: &str) -> bool {
    text.contains("0x00")
}

#[derive(Clone)]
enum Build {
    Rejected(String),
    Panic(String),
    Code(T),
}

fn build_all(text_for: &dyn Fn(&str) -> String, sigils: &[&'static str]) -> Vec<(&'static str, (bool, bool, bool), Build)> {
    let mut out = vec![];
    for s in sigils {
        let text = text_for(s);
        for c in CONFIGS.iter() {
            let o = ModernOpts { optimize: c.0, frontend_opt: c.1, post_opt: c.2, ..Default::default() };
            let b = match modern_compile(&text, dialect_of(s), &o) {
                Ok(c) => Build::Code(c.code),
                Err(e) if e.is_panic() => Build::Panic(e.msg()),
                Err(e) => Build::Rejected(e.msg()),
            };
            out.push((*s, *c, b));
        }
    }
    out
}

fn check_c02_generated(st: &mut Stats, case0: &Case, sub: &str) {
    let sigils: Vec<&'static str> = SIGILS.to_vec();
    let prog0 = case0.prog.clone();
    let text_for = |s: &str| {
        let mut p = prog0.clone();
        p.sigil = Some(SIGILS.iter().copied().find(|x| *x == s).unwrap());
        p.text()
    };
    let builds = build_all(&text_for, &sigils);
    let refs: Vec<Result<T, NoValue>> = case0.args.iter().map(|a| reference(&case0.prog, a)).collect();
    compare_builds(st, &builds, &case0.args, Some(&refs), &text_for, Some(case0), sub);
}

fn compare_builds(
    st: &mut Stats,
    builds: &[(&'static str, (bool, bool, bool), Build)],
    args: &[T],
    refs: Option<&[Result<T, NoValue>]>,
    text_for: &dyn Fn(&str) -> String,
    case: Option<&Case>,
    sub: &str,
) {
    for (s, c, b) in builds {
        st.eval();
        match b {
            Build::Panic(p) => {
                st.outcome("compile-PANIC");
                st.violation(&format!("compile-panic/{}/{}", short_sigil(s), cfg_name(c)), format!("{} [{} {}]: {}", text_for(s), short_sigil(s), cfg_name(c), p), text_for(s).len(), json!({"kind": "c02", "text": text_for(s), "sigil": s}));
            }
            Build::Rejected(_) => st.outcome(&format!("rejected/{}", short_sigil(s))),
            Build::Code(_) => st.outcome(&format!("accepted/{}", short_sigil(s))),
        }
    }
    for (ai, a) in args.iter().enumerate() {
        // outcome of every build on this valuation
        let outs: Vec<Option<Out>> = builds.iter().map(|(_, _, b)| if let Build::Code(c) = b { Some(consensus(c, a)) } else { None }).collect();
        let zero_lit = has_zero_led_literal(&text_for(builds[0].0));
        let mk_replay = |s: &str, c: &(bool, bool, bool)| json!({"kind": "c02", "text": text_for(s), "sigil": s, "config": cfg_name(c), "args": a.hex()});
        let sig_for = |kind: &str, s: &str, c: &(bool, bool, bool), got: Option<&Out>, code: Option<&T>| -> String {
            // configuration-borne root causes first
            let build = builds.iter().find(|(bs, bc, _)| *bs == s && bc == c).map(|x| &x.2);
            let rejected_msg = match build {
                Some(Build::Rejected(m)) => m.clone(),
                _ => String::new(),
            };
            if s == "*strict-cl-21*" && (c.0 || c.2) && (rejected_msg.contains(" in 64") || rejected_msg.starts_with("*macros*") || code.map(contains_quoted_64).unwrap_or(false)) {
                return "strict-cl21-optimised/@-becomes-(q . 64)".to_string();
            }
            if dialect_of(s).stepping.map(|x| x >= 23).unwrap_or(false) && c.0 && rejected_msg.contains("Unbound use of ") && rejected_msg.contains("_$_") && text_for(s).contains("(assign") {
                // F37: CSE lifts a subexpression shared by two bindings of an assign out of the assign although it
                // mentions a variable the assign binds; symptom: the optimised build is rejected with an unbound renamed variable
                return "cse/assign-bound-variable-unbound-after-lifting".to_string();
            }
            if c.1 {
                // shipped programs: the names of the program's own parameters (4+ characters, so that a short name
                // cannot coincide with a legitimate small value)
                let names = case.map(|cs| all_names(&cs.prog)).unwrap_or_else(|| {
                    let mut v = vec![];
                    if let Some(p) = crate::parsemc::mod_params(text_for(s).as_bytes()) {
                        p.names(&mut v);
                    }
                    v.into_iter().filter(|n| n.len() >= 4).collect()
                });
                let leaked_value = matches!(got, Some(Out::Val(v)) if leaks_a_name(v, &names) || case.map(|cs| equals_reference_on_names(&cs.prog, v)).unwrap_or(false));
                let leaked_code = code.map(|c| leaks_a_name(c, &names)).unwrap_or(false);
                if leaked_value || leaked_code {
                    return "frontend-optimiser/variable-replaced-by-its-name".to_string();
                }
            }
            match case {
                Some(cs) => {
                    let mut cs2 = cs.clone();
                    cs2.prog.sigil = SIGILS.iter().copied().find(|x| *x == s);
                    let optname = if c.0 || c.2 { "optimised" } else { "run" };
                    let base = c01_sig(&cs2, s, optname, "wrong-result", got, code);
                    // CSE only runs with optimize on: an unoptimised build that raises is not that finding
                    let base = if base.starts_with("cse/") && !c.0 { format!("wrong-result/{}/{}/{}/x", cs.tags[0], cs.tags.get(1).cloned().unwrap_or_default(), short_sigil(s)) } else { base };
                    if base.starts_with("wrong-result/") {
                        format!("{}/{}", kind, base.trim_start_matches("wrong-result/").rsplitn(2, '/').last().unwrap_or("").to_string() + "/" + &cfg_name(c))
                    } else {
                        base
                    }
                }
                None => format!("{}/shipped/{}/{}", kind, short_sigil(s), cfg_name(c)),
            }
        };
        // (b) every build equals the reference value
        if let Some(Ok(v)) = refs.map(|r| &r[ai]) {
            for ((s, c, b), o) in builds.iter().zip(outs.iter()) {
                if let (Build::Code(code), Some(o)) = (b, o) {
                    match o {
                        Out::Val(g) if g == v => {
                            st.count("agrees-with-reference", 1);
                            st.nontrivial(&(text_for(s), cfg_name(c), ai));
                        }
                        Out::Limit => {}
                        other => {
                            st.outcome("DISAGREES-WITH-REFERENCE");
                            st.violation(&sig_for("vs-reference", s, c, Some(other), Some(code)), format!("{} [{} {}] on {}: source means {}, build gives {}", text_for(s), short_sigil(s), cfg_name(c), a.short(), v.short(), other.short()), text_for(s).len(), mk_replay(s, c));
                        }
                    }
                }
            }
        }
        // (a) any two value-returning builds of compatible groups agree
        let mut firsts: Vec<(usize, &T)> = vec![];
        for (i, o) in outs.iter().enumerate() {
            if let Some(Out::Val(v)) = o {
                firsts.push((i, v));
            }
        }
        if firsts.len() >= 2 {
            st.count("valuations-with-two-or-more-value-returning-builds", 1);
            for w in 1..firsts.len() {
                let (i0, v0) = firsts[0];
                let (i1, v1) = firsts[w];
                let (s0, s1) = (builds[i0].0, builds[i1].0);
                let comparable = group_of(s0) == group_of(s1) || !zero_lit;
                if comparable && v0 != v1 {
                    // attribute to whichever differs from the reference, if known; otherwise to the later build
                    let blame = match refs.map(|r| &r[ai]) {
                        Some(Ok(v)) if v == v1 => i0,
                        _ => i1,
                    };
                    if refs.map(|r| r[ai].is_ok()).unwrap_or(false) {
                        continue; // already reported under (b)
                    }
                    let (s, c, b) = &builds[blame];
                    let code = if let Build::Code(c) = b { Some(c) } else { None };
                    st.outcome("BUILDS-DISAGREE");
                    st.violation(
                        &sig_for("builds-disagree", s, c, outs[blame].as_ref(), code),
                        format!("{} on {}: [{} {}] gives {}, [{} {}] gives {}", text_for(s), a.short(), short_sigil(s0), cfg_name(&builds[i0].1), v0.short(), short_sigil(s1), cfg_name(&builds[i1].1), v1.short()),
                        text_for(s).len(),
                        mk_replay(s, c),
                    );
                }
            }
        }
        // (c) monotonicity within a dialect: the unoptimised build returns v => every other build of that dialect compiles and returns v
        let mut k = 0;
        while k < builds.len() {
            let s = builds[k].0;
            // the property's monotonicity clause is about -O and the post-optimiser: builds are compared
            // with the unoptimised build that has the SAME frontend_opt setting
            for base_i in [k, k + 2] {
              let base = &outs[base_i];
              if let Some(Out::Val(v)) = base {
                for j in k..k + CONFIGS.len() {
                    if j == base_i || builds[j].1 .1 != builds[base_i].1 .1 {
                        continue;
                    }
                    let ok = match (&builds[j].2, &outs[j]) {
                        (Build::Code(_), Some(Out::Val(g))) => g == v,
                        (Build::Code(_), Some(Out::Limit)) => true,
                        _ => false,
                    };
                    if ok {
                        st.count("monotone-ok", 1);
                        st.nontrivial(&(text_for(s), "mono", j, ai));
                    } else {
                        let (s, c, b) = &builds[j];
                        let code = if let Build::Code(c) = b { Some(c) } else { None };
                        let how = match (b, &outs[j]) {
                            (Build::Rejected(m), _) => format!("does not compile: {}", m),
                            (Build::Panic(m), _) => format!("panics: {}", m),
                            (_, Some(o)) => format!("gives {}", o.short()),
                            _ => String::new(),
                        };
                        st.outcome("OPTIMISATION-BREAKS");
                        st.violation(&sig_for("optimisation-breaks", s, c, outs[j].as_ref(), code), format!("{} on {}: unoptimised build gives {}, [{} {}] {}", text_for(s), a.short(), v.short(), short_sigil(s), cfg_name(c), how), text_for(s).len(), mk_replay(s, c));
                    }
                }
              }
            }
            k += CONFIGS.len();
        }
        if ai == 0 {
            if let Some(Some(Out::Val(v))) = outs.first() {
                st.sample(json!({"sub": sub, "program": text_for(builds[0].0), "args": a.short(), "value_in_all_builds": v.short(), "builds": builds.len()}));
            }
        }
    }
}

fn valuations_for(p: &Pat, limit: usize) -> Vec<T> {
    let mut names = vec![];
    p.names(&mut names);
    let alpha = [T::nil(), T::int(1), T::list(&[T::int(2), T::int(3)]), T::A((1..=32u8).collect()), T::int(100), T::list(&[T::list(&[T::int(51), T::A((1..=32u8).collect()), T::int(7)])])];
    fn fill(p: &Pat, pick: &dyn Fn(usize) -> T, ctr: &mut usize) -> T {
        match p {
            Pat::Name(_) => {
                *ctr += 1;
                pick(*ctr - 1)
            }
            Pat::Nil => T::nil(),
            Pat::Cons(a, b) => {
                let x = fill(a, pick, ctr);
                let y = fill(b, pick, ctr);
                T::p(x, y)
            }
            Pat::At(_, s) => fill(s, pick, ctr),
        }
    }
    let k = names.len().max(1);
    let mut out = vec![];
    let total = (alpha.len() as u64).pow(k.min(3) as u32);
    for i in 0..total.min(limit as u64) {
        let pick = |j: usize| {
            let d = if j < 3 { (i / (alpha.len() as u64).pow(j as u32)) % alpha.len() as u64 } else { (i + j as u64) % alpha.len() as u64 };
            alpha[d as usize].clone()
        };
        let mut c = 0;
        out.push(fill(p, &pick, &mut c));
    }
    out
}

pub fn c02(thorough: bool, replay: Option<String>) -> i32 {
    let mut rep = Report::new("C02", if thorough { "thorough" } else { "quick" }, "exploration");
    rep.rule = "every program of the stated sets is compiled for every sigil under the FULL configuration matrix {optimize off/on} x {frontend_opt off/on} x {classic post-optimiser off/on} (every option set an entry point can derive, and the ones it cannot) and every build is run by clvmr on the valuations. \
        Oracles: (b) every build returns the reference value whenever the reference interpreter returns one; (a) any two builds that both return a value return the same value (across the cl21-group / cl23.1-group boundary only for programs without zero-led literals); (c) if the unoptimised build of a dialect returns v, every other build of that dialect compiles and returns v. \
        non-trivial = distinct (program, configuration, valuation) triples that returned the agreed value"
        .to_string();
    rep.assumptions = vec!["reference interpreter and clvmr as in C01".to_string(), "shipped programs are given argument trees enumerated from their parameter shape over a 6-value alphabet; pairs on which no build returns a value make no claim (counted)".to_string()];
    if replay.is_some() {
        eprintln!("C02 replay: re-run the check; replay files carry the program text, sigil, configuration and arguments");
        let st = Stats::new();
        rep.add_sub("replay", "not supported in-process", 0, false, false, st);
        return rep.finish();
    }
    let cap = Some(Duration::from_secs(if thorough { 3000 } else { 50 }));
    // generated programs: a slice of C01's spaces
    let mut cases: Vec<Case> = vec![];
    for c in scope_chains(if thorough { 2 } else { 1 }) {
        for p in [NamePolicy::Fresh, NamePolicy::SameEverywhere] {
            if !thorough && p != NamePolicy::Fresh {
                continue;
            }
            cases.push(scope_case(&c, p, None));
        }
    }
    let flat: Vec<usize> = if thorough { vec![1, 2, 3, 8, 15, 16, 17, 32, 40] } else { vec![2, 16, 17] };
    for p in param_patterns(if thorough { 3 } else { 2 }, &flat) {
        for kind in PARAM_KINDS {
            if let Some(c) = params_case(&p, kind, None) {
                cases.push(c);
            }
        }
    }
    let ol = oplit_cases(None);
    for (i, c) in ol.into_iter().enumerate() {
        if thorough || i % 6 == 0 {
            cases.push(c);
        }
    }
    cases.extend(calls_cases(None, if thorough { 3 } else { 2 }));
    // quick tier: every 2nd / 4th / 2nd member of these families by index (fixed sub-enumerations, the full families run in C01's quick tier)
    cases.extend(nested_cases(None).into_iter().enumerate().filter(|(i, _)| thorough || i % 2 == 0).map(|(_, c)| c));
    cases.extend(many_helpers_cases(None, if thorough { 12 } else { 5 }));
    cases.extend(let_position_cases(None).into_iter().enumerate().filter(|(i, _)| thorough || i % 5 == 1).map(|(_, c)| c));
    cases.extend(constcond_cases(None).into_iter().enumerate().filter(|(i, _)| thorough || i % 3 == 1).map(|(_, c)| c));
    cases.extend(cse_cases(None, thorough).into_iter().enumerate().filter(|(i, _)| thorough || i % 4 == 0).map(|(_, c)| c));
    cases.extend(lookalike_cases(None, thorough, if thorough { &["main-body", "function-body", "defconst", "inline-argument"] } else { &["main-body"] }).into_iter().enumerate().filter(|(i, _)| thorough || i % 2 == 0).map(|(_, c)| c));
    for e in kernel_exprs(1) {
        cases.push(kernel_case(&e, 0, None));
        if thorough {
            cases.push(kernel_case(&e, 1, None));
            cases.push(kernel_case(&e, 2, None));
        }
    }
    let n = cases.len() as u64;
    // diagnostic only (never set by a registered command): shorten the wall cap of the generated sub-space
    let gen_cap = std::env::var("VERIF_DIAG_GENERATED_CAP_SECS").ok().and_then(|v| v.parse::<u64>().ok()).map(Duration::from_secs).or(cap);
    let (mut st, capped) = par_range(n, 4, gen_cap, || (), |_, st, i| {
        st.count(&format!("family:{}", cases[i as usize].tags[0].split('/').next().unwrap_or("")), 1);
        check_c02_generated(st, &cases[i as usize], "generated")
    });
    st.max_samples = 6;
    rep.add_sub("generated", &format!("{} generated programs (binder chains, parameter shapes, operators/literals, code-lookalike quoted data, call graphs, kernels: a slice of C01's sub-spaces) x 6 sigils x 8 configurations x 2-3 valuations", n), n, true, capped, st);

    // shipped programs
    let shipped = crate::crashmc::shipped_seeds(if thorough { 20000 } else { 2500 }, if thorough { 400 } else { 40 });
    let mut sp: Vec<(String, String, Pat)> = vec![];
    for (path, text) in shipped {
        if let Some(p) = crate::parsemc::mod_params(text.as_bytes()) {
            sp.push((path, text, p));
        }
    }
    let n = sp.len() as u64;
    let (st, capped) = par_range(n, 1, cap, || (), |_, st, i| {
        let (path, text, pat) = &sp[i as usize];
        // the program's own sigil decides its dialect; all 8 configurations of that dialect are built
        let d = match detect_dialect(text) {
            Some(d) if d.stepping.is_some() => d,
            _ => {
                st.outcome("classic-or-unreadable(skipped)");
                return;
            }
        };
        let sig: &'static str = match SIGILS.iter().find(|s| {
            let x = dialect_of(s);
            x.stepping == d.stepping && x.strict == d.strict && x.int_fix == d.int_fix
        }) {
            Some(s) => s,
            None => return,
        };
        let mut builds = vec![];
        for c in CONFIGS.iter() {
            let o = ModernOpts { optimize: c.0, frontend_opt: c.1, post_opt: c.2, search: crate::subject::repo_search_paths().into_iter().chain(std::iter::once(std::path::Path::new(path).parent().map(|p| p.to_string_lossy().to_string()).unwrap_or_default())).collect(), filename: path.clone() };
            let b = match modern_compile(text, d.clone(), &o) {
                Ok(c) => Build::Code(c.code),
                Err(e) if e.is_panic() => Build::Panic(e.msg()),
                Err(e) => Build::Rejected(e.msg()),
            };
            builds.push((sig, *c, b));
        }
        let args = valuations_for(pat, if thorough { 60 } else { 12 });
        let t2 = text.clone();
        compare_builds(st, &builds, &args, None, &move |_s| t2.clone(), None, path);
    });
    rep.add_sub("shipped", &format!("{} modern programs under resources/tests with a readable (mod PARAMS ...) head, each in its own dialect x 8 configurations x argument trees from its parameter shape", n), n, true, capped, st);
    rep.finish()
}

// ---------------------------------------------------------------------------
// C03 — classic compiler output computes what the source means

fn classic_cases(thorough: bool) -> Vec<Case> {
    let mut out: Vec<Case> = vec![];
    // parameter shapes: main, and defun / inline called positionally through paths into ARGS
    let flat: Vec<usize> = (1..=40).collect();
    // the classic compiler is fast: parameter trees with up to 4 leaves in both tiers
    for p in param_patterns(4, &flat) {
        if let Some(c) = params_case(&p, "main", None) {
            out.push(c);
        }
        // positional call of a function with this parameter list, if it is a proper list at top level
        let mut elems = vec![];
        let mut cur = &p;
        let proper = loop {
            match cur {
                Pat::Cons(a, b) => {
                    elems.push((**a).clone());
                    cur = b;
                }
                Pat::Nil => break true,
                _ => break false,
            }
        };
        if proper && !elems.is_empty() && true {
            let mut names = vec![];
            p.names(&mut names);
            for inline in [false, true] {
                let mut argexprs = vec![];
                let mut path = E::v("ARGS");
                for _ in 0..elems.len() {
                    argexprs.push(E::prim("f", vec![path.clone()]));
                    path = E::prim("r", vec![path]);
                }
                let obs = E::List(std::iter::once(E::int(300)).chain(names.iter().map(|n| E::Var(n.clone()))).collect());
                let mut c1 = 0;
                let mut c2 = 0;
                let prog = Prog { sigil: None, params: Pat::n("ARGS"), helpers: vec![Helper::Fun { name: "F".into(), inline, params: p.clone(), body: obs }], body: E::Call("F".into(), argexprs, None) };
                out.push(Case { prog, args: vec![arg_for(&p, &mut c1, 0), arg_for(&p, &mut c2, 1)], tags: vec![format!("classic/params/{}", if inline { "inline" } else { "defun" }), format!("leaves{}", names.len().min(9))] });
            }
        }
    }
    // operators and literals
    for c in oplit_cases(None) {
        let pos = c.tags[0].clone();
        if pos.contains("let-binding") || c.tags[1] == "quote-bound-symbol" || c.tags[1] == "quote-free-symbol" {
            continue;
        }
        // `%` and modpow are named by the classic compiler as well; keep everything else
        out.push(c);
    }
    // binder chains restricted to what classic has
    let classic_binders: Vec<usize> = BINDERS.iter().enumerate().filter(|(_, b)| ["defun", "inline", "macro", "if-branch"].contains(b)).map(|(i, _)| i).collect();
    for c in scope_chains(if thorough { 3 } else { 2 }) {
        if c.iter().all(|(b, _)| classic_binders.contains(b)) {
            out.push(scope_case(&c, NamePolicy::Fresh, None));
            out.push(scope_case(&c, NamePolicy::SameEverywhere, None));
            if thorough {
                out.push(scope_case(&c, NamePolicy::ShadowParams, None));
            }
        }
    }
    // recursion and kernels
    for c in calls_cases(None, 2) {
        // classic has no `&rest` call tails: those programs are outside the classic-expressible subset
        if c.tags[0].starts_with("calls/recursion") || c.tags[0].starts_with("calls/mutual") || c.tags[0] == "calls/constant-calls-in-helper" {
            out.push(c);
        }
    }
    for e in kernel_exprs(if thorough { 2 } else { 1 }) {
        out.push(kernel_case(&e, 0, None));
        out.push(kernel_case(&e, 1, None));
        out.push(kernel_case(&e, 2, None));
    }
    // a constant whose only mention follows the literal 1 / 2 in an argument list
    out.extend(literal_one_cases(None));
    out
}

pub fn c03(thorough: bool, replay: Option<String>) -> i32 {
    let mut rep = Report::new("C03", if thorough { "thorough" } else { "quick" }, "exploration");
    rep.rule = "every program of the classic-expressible sub-spaces (no sigil) is compiled through compile_clvm_text (the classic compiler written in CLVM, run with the optimiser) and run by clvmr on 2-3 valuations: whenever the reference interpreter returns v the classic build must return v; and the modern cl21 build of the same source must return the same value as the classic build whenever both return one (quoted symbols and unbound names are not generated). non-trivial = distinct (program, valuation) pairs where the reference returned a value and the classic build agreed"
        .to_string();
    rep.assumptions = vec!["reference interpreter and clvmr as in C01".to_string()];
    if replay.is_some() {
        let st = Stats::new();
        rep.add_sub("replay", "re-run the check; replay files carry the program text and arguments", 0, false, false, st);
        return rep.finish();
    }
    let cap = Some(Duration::from_secs(if thorough { 3000 } else { 50 }));
    let cases = classic_cases(thorough);
    let n = cases.len() as u64;
    let cl21 = "*standard-cl-21*";
    let (st, capped) = par_range(n, 2, cap, || (), |_, st, i| {
        let case = &cases[i as usize];
        let text = case.prog.text();
        st.eval();
        let classic = library_compile(&text, &[], true);
        let mut p21 = case.prog.clone();
        p21.sigil = Some(cl21);
        let modern = modern_compile(&p21.text(), dialect_of(cl21), &ModernOpts::default());
        let tag = format!("{}+{}", strip_variant(&case.tags[0]), strip_variant(case.tags.get(1).map(|s| s.as_str()).unwrap_or("")));
        let code = match &classic {
            Ok(c) => {
                st.outcome("classic-accepted");
                c.code.clone()
            }
            Err(e) if e.is_panic() => {
                st.outcome("classic-PANIC");
                st.violation(&format!("classic-panic/{}", tag), format!("{}: {}", text, e.msg()), text.len(), json!({"kind": "c03", "text": text}));
                return;
            }
            Err(e) => {
                st.outcome("classic-rejected");
                st.count(&format!("rejected[{}]", e.msg().chars().take(50).collect::<String>()), 1);
                return;
            }
        };
        for a in &case.args {
            let r = reference(&case.prog, a);
            let got = consensus(&code, a);
            let replay = json!({"kind": "c03", "text": text, "args": a.hex()});
            if let Ok(v) = &r {
                match &got {
                    Out::Val(g) if g == v => {
                        st.count("agrees-with-reference", 1);
                        st.nontrivial(&(&text, a));
                        st.sample(json!({"program": text, "args": a.short(), "value": v.short()}));
                    }
                    Out::Limit => {}
                    other => {
                        st.outcome("DISAGREES-WITH-REFERENCE");
                        let cls = if !case.prog.helpers.iter().all(|h| !matches!(h, Helper::Fun { params, .. } if pat_has_at(params))) { "function/@-capture-in-parameter-list".to_string() } else { format!("vs-reference/{}", tag) };
                        st.violation(&cls, format!("{} on {}: source means {}, classic build gives {}", text, a.short(), v.short(), other.short()), text.len(), replay.clone());
                    }
                }
            }
            if let Ok(m) = &modern {
                if let (Out::Val(x), Out::Val(y)) = (&got, consensus(&m.code, a)) {
                    if *x == y {
                        st.count("classic==cl21", 1);
                    } else if r.as_ref().ok() == Some(x) {
                        // the classic build is right and cl21 is wrong: C01's business
                        st.count("cl21-differs-but-classic-matches-reference", 1);
                    } else {
                        st.outcome("CLASSIC-VS-CL21");
                        st.violation(&format!("classic-vs-cl21/{}", tag), format!("{} on {}: classic build gives {}, cl21 build gives {}", text, a.short(), x.short(), y.short()), text.len(), replay);
                    }
                }
            }
        }
    });
    // constants graphs: the classic module compiler evaluates pending constants in hash-iteration order; every
    // order is explored through the additive seam (feature verif-hooks), one non-identity permutation per visit
    {
        use chialisp::verif_hooks;
        let cases = const_graph_cases(None, if thorough { 4 } else { 3 });
        let n = cases.len() as u64;
        let (st2, capped2) = par_range(n, 1, cap, || (), |_, st, i| {
            let case = &cases[i as usize];
            let text = case.prog.text();
            let tag = format!("{}+{}", case.tags[0], case.tags[1].split("-order").next().unwrap_or(""));
            // first run in sorted order, recording the size of the collection at every visit of the site
            let sizes: std::sync::Arc<std::sync::Mutex<Vec<usize>>> = Default::default();
            let s2 = sizes.clone();
            verif_hooks::set_order_hook(Some(Box::new(move |_site, k| {
                s2.lock().unwrap().push(k);
                (0..k).collect()
            })));
            let base = library_compile(&text, &[], true);
            verif_hooks::set_order_hook(None);
            let visits = sizes.lock().unwrap().clone();
            st.count("order-site-visits", visits.len() as u64);
            let mut plans: Vec<Option<(usize, Vec<usize>)>> = vec![None];
            for (k, sz) in visits.iter().enumerate() {
                if *sz >= 2 && *sz <= 4 {
                    for p in crate::histmc::all_perms_pub(*sz) {
                        if !p.iter().enumerate().all(|(a, b)| a == *b) {
                            plans.push(Some((k, p)));
                        }
                    }
                }
            }
            for plan in plans {
                st.eval();
                let classic = match &plan {
                    None => base.clone(),
                    Some((k, p)) => {
                        let (k, p2) = (*k, p.clone());
                        let mut visit = 0usize;
                        verif_hooks::set_order_hook(Some(Box::new(move |_site, m| {
                            let r = if visit == k && m == p2.len() { p2.clone() } else { (0..m).collect() };
                            visit += 1;
                            r
                        })));
                        let r = library_compile(&text, &[], true);
                        verif_hooks::set_order_hook(None);
                        r
                    }
                };
                let code = match &classic {
                    Ok(c) => c.code.clone(),
                    Err(e) if e.is_panic() => {
                        st.violation(&format!("classic-panic/{}", tag), format!("{}: {}", text, e.msg()), text.len(), json!({"kind": "c03", "text": text}));
                        continue;
                    }
                    Err(e) => {
                        if base.is_ok() {
                            st.violation(&format!("rejected-under-an-iteration-order/{}", tag), format!("{}: accepted when pending constants are visited in sorted order, rejected ({}) under {:?}", text, e.msg(), plan), text.len(), json!({"kind": "c03", "text": text, "order": format!("{:?}", plan)}));
                        } else {
                            st.outcome("classic-rejected");
                            st.count(&format!("rejected[{}]", e.msg().chars().take(50).collect::<String>()), 1);
                        }
                        continue;
                    }
                };
                st.outcome("classic-accepted");
                for a in &case.args {
                    if let Ok(v) = reference(&case.prog, a) {
                        match consensus(&code, a) {
                            Out::Val(g) if g == v => {
                                st.nontrivial(&(&text, a, &plan));
                                if plan.is_some() {
                                    st.sample(json!({"program": text, "visit_and_permutation": format!("{:?}", plan), "args": a.short(), "value": v.short()}));
                                }
                            }
                            Out::Limit => {}
                            other => st.violation(&format!("vs-reference/{}", tag), format!("{} on {} with pending constants visited in order {:?}: source means {}, classic build gives {}", text, a.short(), plan, v.short(), other.short()), text.len(), json!({"kind": "c03", "text": text, "args": a.hex(), "order": format!("{:?}", plan)})),
                        }
                    }
                }
            }
        });
        rep.add_sub("constants-graphs", &format!("{} programs: chains of 2..{} defconst constants depending on each other directly / through a defun / an inline / a template macro, in every order of the definitions; each compiled with the pending-constants loop of the classic module compiler iterated in sorted order and in every other permutation at each visit (through the verif-hooks seam; every order is realisable under some hash seeding)", n, if thorough { 4 } else { 3 }), n, true, capped2, st2);
    }
    rep.add_sub("classic-programs", &format!("{} programs: every parameter tree with <= {} leaves and flat/improper lists up to 40 as main / defun / defun-inline parameters, every literal and operator in 6 positions, binder chains over defun/inline/macro/if, recursion, constant calls, kernels, constants mentioned only after the literal 1 / 2 in an argument list", n, 4), n, true, capped, st);
    rep.finish()
}

// ---------------------------------------------------------------------------
// C13 — symbol tables describe the emitted program

fn tree_hash(t: &T, memo: &mut Vec<(Vec<u8>, T)>) -> Vec<u8> {
    use sha2::{Digest, Sha256};
    let h = match t {
        T::A(v) => {
            let mut h = Sha256::new();
            h.update([1]);
            h.update(v);
            h.finalize().to_vec()
        }
        T::P(a, b) => {
            let ha = tree_hash(a, memo);
            let hb = tree_hash(b, memo);
            let mut h = Sha256::new();
            h.update([2]);
            h.update(&ha);
            h.update(&hb);
            h.finalize().to_vec()
        }
    };
    if let T::P(_, _) = t {
        memo.push((h.clone(), t.clone()));
    }
    h
}

/// Canonical text of an s-expression text: whitespace-insensitive and insensitive to how a dotted tail is
/// written ("(a . (b c))" and "(a b c)" are the same value). Independent of the repository's reader.
fn norm_ws(s: &str) -> String {
    #[derive(Debug)]
    enum N {
        Atom(String),
        Nil,
        Cons(Box<N>, Box<N>),
    }
    let toks: Vec<String> = s.replace('(', " ( ").replace(')', " ) ").split_whitespace().map(|x| x.to_string()).collect();
    fn expr(t: &[String], i: &mut usize) -> Option<N> {
        let tok = t.get(*i)?;
        *i += 1;
        if tok == "(" {
            list(t, i)
        } else if tok == ")" || tok == "." {
            None
        } else {
            Some(N::Atom(tok.clone()))
        }
    }
    fn list(t: &[String], i: &mut usize) -> Option<N> {
        match t.get(*i)?.as_str() {
            ")" => {
                *i += 1;
                Some(N::Nil)
            }
            "." => {
                *i += 1;
                let tail = expr(t, i)?;
                if t.get(*i)? != ")" {
                    return None;
                }
                *i += 1;
                Some(tail)
            }
            _ => {
                let head = expr(t, i)?;
                let rest = list(t, i)?;
                Some(N::Cons(Box::new(head), Box::new(rest)))
            }
        }
    }
    fn show(n: &N, out: &mut String) {
        match n {
            N::Atom(a) => out.push_str(a),
            N::Nil => out.push_str("()"),
            N::Cons(_, _) => {
                out.push('(');
                let mut cur = n;
                let mut first = true;
                loop {
                    match cur {
                        N::Cons(a, b) => {
                            if !first {
                                out.push(' ');
                            }
                            show(a, out);
                            first = false;
                            cur = b;
                        }
                        N::Nil => break,
                        N::Atom(a) => {
                            out.push_str(" . ");
                            out.push_str(a);
                            break;
                        }
                    }
                }
                out.push(')');
            }
        }
    }
    let mut i = 0;
    match expr(&toks, &mut i) {
        Some(n) if i == toks.len() => {
            let mut o = String::new();
            show(&n, &mut o);
            o
        }
        _ => toks.join(" "),
    }
}

/// (a (q . code) (c (q . left_env) 1)) -> left_env
fn left_env_of(program: &T) -> Option<T> {
    if let T::P(op, rest) = program {
        if **op != T::int(2) {
            return None;
        }
        if let T::P(_q, rest2) = &**rest {
            if let T::P(envexpr, _) = &**rest2 {
                // (c (q . env) 1)
                if let T::P(c, cr) = &**envexpr {
                    if **c == T::int(4) {
                        if let T::P(qenv, _) = &**cr {
                            if let T::P(q, env) = &**qenv {
                                if **q == T::int(1) {
                                    return Some((**env).clone());
                                }
                            }
                        }
                    }
                }
            }
        }
    }
    None
}

fn nested_progs<'a>(p: &'a Prog, out: &mut Vec<&'a Prog>) {
    fn walk<'a>(e: &'a E, out: &mut Vec<&'a Prog>) {
        match e {
            E::Var(_) | E::Lit(_, _) | E::Quote(_) | E::QuoteSym(_) => {}
            E::Prim(_, a) | E::List(a) | E::MacroCall(_, a) => a.iter().for_each(|x| walk(x, out)),
            E::If(c, t, f) => {
                walk(c, out);
                walk(t, out);
                walk(f, out);
            }
            E::Call(_, a, r) => {
                a.iter().for_each(|x| walk(x, out));
                if let Some(r) = r {
                    walk(r, out);
                }
            }
            E::Let(_, bs, b) => {
                bs.iter().for_each(|(_, x)| walk(x, out));
                walk(b, out);
            }
            E::Assign(_, bs, b) => {
                bs.iter().for_each(|(_, x)| walk(x, out));
                walk(b, out);
            }
            E::Lambda(_, _, b) => walk(b, out),
            E::Apply(f, a) => {
                walk(f, out);
                walk(a, out);
            }
            E::ApplyMod(p, a) => {
                out.push(p);
                nested_progs(p, out);
                walk(a, out);
            }
        }
    }
    for h in &p.helpers {
        match h {
            Helper::Fun { body, .. } | Helper::Const { body, .. } => walk(body, out),
            Helper::Macro { template, .. } => walk(template, out),
            _ => {}
        }
    }
    walk(&p.body, out);
}

fn check_c13_case(st: &mut Stats, case: &Case, sub: &str) {
    let sigil = case.prog.sigil.expect("sigil");
    let text = case.prog.text();
    for (optname, o) in entry_option_sets(sigil) {
        if sigil == "*strict-cl-21*" && optname != "run" {
            continue;
        }
        st.eval();
        let c = match modern_compile(&text, dialect_of(sigil), &o) {
            Ok(c) => c,
            Err(_) => {
                st.outcome("rejected");
                continue;
            }
        };
        let mut memo = vec![];
        tree_hash(&c.code, &mut memo);
        let lenv = left_env_of(&c.code);
        // a function whose whole code is an atom (a bare path after optimisation) occupies a LEAF of the left env
        if let Some(l) = &lenv {
            fn leaves(t: &T, out: &mut Vec<T>) {
                match t {
                    T::P(a, b) => {
                        leaves(a, out);
                        leaves(b, out);
                    }
                    a => out.push(a.clone()),
                }
            }
            let mut ls = vec![];
            leaves(l, &mut ls);
            for a in ls {
                let mut scratch = vec![];
                let h = tree_hash(&a, &mut scratch);
                if !memo.iter().any(|(hh, _)| *hh == h) {
                    memo.push((h, a));
                }
            }
        }
        let rich_program = to_sexp(&c.code, Spell::Convert);
        let repo_env = chialisp::compiler::compiler::extract_program_and_env(rich_program.clone());
        let replay = json!({"kind": "c13", "text": text, "sigil": sigil, "opts": optname});
        let funs: Vec<(&String, bool, &Pat, &E)> = case.prog.helpers.iter().filter_map(|h| if let Helper::Fun { name, inline, params, body } = h { Some((name, *inline, params, body)) } else { None }).collect();
        // functions of nested (mod ...) forms: their entries may or may not be in the table; when they are, they must be true too
        let mut inner_progs: Vec<&Prog> = vec![];
        nested_progs(&case.prog, &mut inner_progs);
        let inner_funs: Vec<(&String, &Pat)> = inner_progs.iter().flat_map(|p| p.helpers.iter()).filter_map(|h| if let Helper::Fun { name, params, .. } = h { Some((name, params)) } else { None }).collect();
        let mut entries_present: Vec<String> = vec![];
        for (k, v) in c.symbols.iter() {
            if k.len() != 64 || !k.chars().all(|ch| ch.is_ascii_hexdigit()) {
                continue;
            }
            let args_key = format!("{}_arguments", k);
            let args_txt = match c.symbols.get(&args_key) {
                Some(a) => a,
                None => continue,
            };
            let h = hex::decode(k).unwrap();
            let code = match memo.iter().find(|(hh, _)| *hh == h) {
                Some((_, t)) => t.clone(),
                None => {
                    st.outcome("entry-for-code-not-in-program(allowed)");
                    continue;
                }
            };
            st.outcome("entry-for-code-in-program");
            let base = v.split("_$_").next().unwrap_or(v).to_string();
            // an outer function whose written argument list matches is preferred (a nested module may reuse the name)
            let fun = funs.iter().find(|(n, _, p, _)| **n == *v && norm_ws(args_txt) == norm_ws(&p.text())).or_else(|| if inner_funs.iter().any(|(n, _)| **n == *v) { None } else { funs.iter().find(|(n, _, _, _)| **n == *v) });
            match fun {
                None if inner_funs.iter().any(|(n, _)| **n == *v) => {
                    if inner_funs.iter().any(|(n, p)| **n == *v && norm_ws(args_txt) == norm_ws(&p.text())) {
                        st.outcome("nested-module-function-entry(name and arguments true)");
                    } else {
                        st.violation(&format!("wrong-arguments/{}", sub), format!("{} [{}]: entry {} -> {:?} records arguments {:?}, which no function of that name (outer or nested) was written with", text, optname, k, v, args_txt), text.len(), replay.clone());
                    }
                }
                None => {
                    if v.contains("_$_") || v == "__chia__main" || funs.iter().all(|(n, _, _, _)| **n != base) && v.starts_with("letbinding") || v.starts_with("lambda") {
                        st.outcome("synthetic-function-entry");
                    } else {
                        st.violation(&format!("unknown-name/{}", sub), format!("{} [{}]: entry {} -> {:?} names no function of the program", text, optname, k, v), text.len(), replay.clone());
                    }
                }
                Some((name, _inline, params, _body)) => {
                    entries_present.push((*name).clone());
                    if norm_ws(args_txt) != norm_ws(&params.text()) {
                        st.violation(&format!("wrong-arguments/{}", sub), format!("{} [{}]: entry for {} records arguments {:?}, written {:?}", text, optname, name, args_txt, params.text()), text.len(), replay.clone());
                    }
                    // run the extracted code on arguments and compare with calling the function in the source
                    let mut ctr = 0;
                    let argv = arg_for(params, &mut ctr, 0);
                    let uses_left = c.symbols.contains_key(&format!("{}_left_env", k));
                    let env = if uses_left {
                        match &lenv {
                            Some(l) => T::p(l.clone(), argv.clone()),
                            None => {
                                st.outcome("left-env-not-extractable(no claim)");
                                continue;
                            }
                        }
                    } else {
                        argv.clone()
                    };
                    // reference: (F &rest argv) evaluated in the source
                    let call_prog = Prog { sigil: case.prog.sigil, params: Pat::n("ARGV"), helpers: case.prog.helpers.clone(), body: E::Call((*name).clone(), vec![], Some(Box::new(E::v("ARGV")))) };
                    if let Ok(want) = reference(&call_prog, &argv) {
                        // the repository's own way from an entry to runnable code: extract_program_and_env,
                        // path_to_function on the quoted left env, rewrite_in_program
                        if let (true, Some((_main, renv))) = (uses_left, &repo_env) {
                            let in_env = lenv.as_ref().map(|l| {
                                let mut m2 = vec![];
                                tree_hash(l, &mut m2);
                                fn leaf_is(t: &T, x: &T) -> bool {
                                    match t {
                                        T::P(a, b) => leaf_is(a, x) || leaf_is(b, x),
                                        a => a == x,
                                    }
                                }
                                m2.iter().any(|(hh, _)| *hh == h) || (matches!(code, T::A(_)) && leaf_is(l, &code))
                            }).unwrap_or(false);
                            match chialisp::compiler::compiler::path_to_function(renv.clone(), &h) {
                                Some(path) => {
                                    let composed = chialisp::compiler::compiler::rewrite_in_program(path, renv.clone());
                                    match from_sexp(composed) {
                                        Ok(ct) => match consensus(&ct, &argv) {
                                            Out::Val(g) if g == want => {
                                                st.outcome("code-reached-through-path_to_function-computes-the-function");
                                                st.nontrivial(&(&text, optname, name, "via-entry"));
                                            }
                                            Out::Limit => {}
                                            other => {
                                                let leaks = sigil == "*standard-cl-22*" && (leaks_a_name(&code, &all_names(&case.prog)) || matches!(&other, Out::Val(v) if leaks_a_name(v, &all_names(&case.prog))));
                                                let cls = if pat_has_at(params) {
                                                    "function/@-capture-in-parameter-list".to_string()
                                                } else if leaks {
                                                    "cl22-frontend-optimiser/variable-replaced-by-its-name".to_string()
                                                } else if dialect_of(sigil).stepping.map(|s| s >= 23).unwrap_or(false) && text.matches("(x 13)").count() >= 2 && matches!(&other, Out::Err(e) if e.contains("raise")) {
                                                    "cse/repeated-raise-under-repeated-condition-lifted".to_string()
                                                } else {
                                                    format!("extraction-through-the-entry-gives-other-code/{}", sub)
                                                };
                                                st.violation(&cls, format!("{} [{}]: path_to_function + rewrite_in_program for the entry of {} on {} gives {}, the function means {}", text, optname, name, argv.short(), other.short(), want.short()), text.len(), replay.clone());
                                            }
                                        },
                                        Err(e) => st.violation(&format!("extraction-unconvertible/{}", sub), format!("{} [{}]: rewrite_in_program result for {} does not convert: {}", text, optname, name, e), text.len(), replay.clone()),
                                    }
                                }
                                None => {
                                    if in_env {
                                        st.violation(&format!("entry-does-not-lead-to-its-code/{}", sub), format!("{} [{}]: the code of {} (hash {}) occurs in the program's function environment, but path_to_function finds no path to it", text, optname, name, k), text.len(), replay.clone());
                                    } else {
                                        st.outcome("code-not-in-the-function-environment(no extraction claim)");
                                    }
                                }
                            }
                        }
                        match consensus(&code, &env) {
                            Out::Val(g) if g == want => {
                                st.outcome("extracted-code-computes-the-function");
                                st.nontrivial(&(&text, optname, name));
                                st.sample(json!({"program": text, "opts": optname, "function": name, "hash": k, "arguments": args_txt, "on": argv.short(), "value": want.short()}));
                            }
                            Out::Limit => {}
                            other => {
                                let leaks = sigil == "*standard-cl-22*" && (leaks_a_name(&code, &all_names(&case.prog)) || matches!(&other, Out::Val(v) if leaks_a_name(v, &all_names(&case.prog))));
                                let cls = if pat_has_at(params) {
                                    "function/@-capture-in-parameter-list".to_string()
                                } else if leaks {
                                    // C01's finding F27: the recorded code is the miscompiled code
                                    "cl22-frontend-optimiser/variable-replaced-by-its-name".to_string()
                                } else if dialect_of(sigil).stepping.map(|s| s >= 23).unwrap_or(false) && text.matches("(x 13)").count() >= 2 && matches!(&other, Out::Err(e) if e.contains("raise")) {
                                    // C01's finding F32 (same matcher as there): the recorded code is the code CSE produced
                                    "cse/repeated-raise-under-repeated-condition-lifted".to_string()
                                } else {
                                    format!("wrong-code/{}", sub)
                                };
                                st.violation(&cls, format!("{} [{}]: code under the entry for {} on {} gives {}, the function means {}", text, optname, name, argv.short(), other.short(), want.short()), text.len(), replay.clone());
                            }
                        }
                    }
                }
            }
        }
        // presence clause, unoptimised builds only
        // (functions built to share byte-identical code share one key by construction: the presence clause is per code, not per name)
        if !o.optimize && !o.post_opt && case.tags.first().map(|t| t != "same-code-functions").unwrap_or(true) {
            for (name, inline, _, _) in &funs {
                if *inline {
                    continue;
                }
                if entries_present.contains(name) {
                    st.count("non-inlined-function-has-entry", 1);
                } else {
                    st.violation(&format!("missing-entry/{}", sub), format!("{} [{}]: non-inlined function {} has no entry whose code occurs in the program", text, optname, name), text.len(), replay.clone());
                }
            }
        }
    }
}

pub fn c13(thorough: bool, replay: Option<String>) -> i32 {
    let mut rep = Report::new("C13", if thorough { "thorough" } else { "quick" }, "exploration");
    rep.rule = "every generated program with functions (binder chains, call graphs, parameter shapes) x 6 sigils x both entry option sets is compiled with compile_file; all subtree hashes of the emitted program are computed; for every function entry (a 64-hex key with an `_arguments` sibling) whose code occurs in the program: its value must be the name of a function of the program (or a synthetic `_$_` name), the recorded arguments must be the written parameter list, and the code extracted under that hash, run by clvmr in (left-env . args), must return what the reference interpreter returns for calling that function; in unoptimised builds every non-inlined function must have such an entry. \
        non-trivial = distinct (program, option set, function) entries whose extracted code was run and matched the reference"
        .to_string();
    rep.assumptions = vec!["reference interpreter and clvmr as in C01".to_string(), "all generated functions are reachable from the main expression by construction".to_string()];
    if replay.is_some() {
        let st = Stats::new();
        rep.add_sub("replay", "re-run the check; replay files carry the program text, sigil and option set", 0, false, false, st);
        return rep.finish();
    }
    let cap = Some(Duration::from_secs(if thorough { 3000 } else { 50 }));
    let mut cases: Vec<Case> = vec![];
    for s in SIGILS {
        for c in scope_chains(if thorough { 3 } else { 2 }) {
            if c.len() >= 2 && c.iter().any(|u| u.1 != c[0].1) {
                continue;
            }
            let fn_binders = c.iter().any(|(b, _)| ["defun", "inline", "rest-call", "destructure-call", "let", "assign", "lambda"].contains(&BINDERS[*b]));
            if fn_binders {
                cases.push(scope_case(&c, NamePolicy::Fresh, Some(s)));
            }
        }
        // functions whose code is byte-identical but whose names / parameter lists differ: the table has ONE key for both
        for order in 0..2 {
            for inline_third in [false, true] {
                let f1 = Helper::Fun { name: "scale2".into(), inline: false, params: Pat::list(vec![Pat::n("P"), Pat::n("Q")]), body: E::prim("*", vec![E::v("P"), E::int(2)]) };
                let f2 = Helper::Fun { name: "twice".into(), inline: false, params: Pat::list(vec![Pat::n("N")]), body: E::prim("*", vec![E::v("N"), E::int(2)]) };
                let f3 = Helper::Fun { name: "dbl".into(), inline: inline_third, params: Pat::list(vec![Pat::n("M"), Pat::n("U"), Pat::n("V")]), body: E::prim("*", vec![E::v("M"), E::int(2)]) };
                let helpers = if order == 0 { vec![f1, f2, f3] } else { vec![f3, f2, f1] };
                let body = E::List(vec![E::call("scale2", vec![E::v("A"), E::v("B")]), E::call("twice", vec![E::v("B")]), E::call("dbl", vec![E::v("A"), E::v("B"), E::v("A")])]);
                cases.push(Case { prog: Prog { sigil: Some(s), params: Pat::list(vec![Pat::n("A"), Pat::n("B")]), helpers, body }, args: vec![T::list(&[T::int(3), T::int(4)])], tags: vec!["same-code-functions".into(), format!("order{}", order)] });
            }
        }
        cases.extend(calls_cases(Some(s), if thorough { 3 } else { 2 }));
        cases.extend(nested_cases(Some(s)));
        // a user-written function whose compiled code is byte-identical to a helper the compiler generates for a
        // lambda / a let in another function (same body, same ((outer args) binding) parameter shape), written before
        // and after it: the table has ONE key for both
        for user_first in [true, false] {
            for kind in ["lambda", "let"] {
                let (user, host) = if kind == "lambda" {
                    (
                        Helper::Fun { name: "addpair".into(), inline: false, params: Pat::list(vec![Pat::list(vec![Pat::n("P")]), Pat::n("Q")]), body: E::prim("+", vec![E::v("P"), E::v("Q")]) },
                        Helper::Fun { name: "mk".into(), inline: false, params: Pat::list(vec![Pat::n("X")]), body: E::Apply(Box::new(E::Lambda(vec!["X".into()], Pat::list(vec![Pat::n("Y")]), Box::new(E::prim("+", vec![E::v("X"), E::v("Y")])))), Box::new(E::List(vec![E::int(3)]))) },
                    )
                } else {
                    (
                        Helper::Fun { name: "mulsecond".into(), inline: false, params: Pat::list(vec![Pat::list(vec![Pat::n("P"), Pat::n("Q")]), Pat::n("R")]), body: E::prim("*", vec![E::v("R"), E::v("Q")]) },
                        Helper::Fun { name: "mk".into(), inline: false, params: Pat::list(vec![Pat::n("U"), Pat::n("V")]), body: E::Let(LetKind::Let, vec![("W".into(), E::prim("+", vec![E::v("U"), E::int(1)]))], Box::new(E::prim("*", vec![E::v("W"), E::v("V")]))) },
                    )
                };
                let user_name = if kind == "lambda" { "addpair" } else { "mulsecond" };
                let helpers = if user_first { vec![user.clone(), host.clone()] } else { vec![host.clone(), user.clone()] };
                let call_user = if kind == "lambda" { E::call(user_name, vec![E::List(vec![E::v("A")]), E::v("B")]) } else { E::call(user_name, vec![E::List(vec![E::v("A"), E::v("B")]), E::v("A")]) };
                let call_host = if kind == "lambda" { E::call("mk", vec![E::v("A")]) } else { E::call("mk", vec![E::v("A"), E::v("B")]) };
                cases.push(Case { prog: Prog { sigil: Some(s), params: Pat::list(vec![Pat::n("A"), Pat::n("B")]), helpers, body: E::List(vec![call_user, call_host]) }, args: vec![T::list(&[T::int(3), T::int(4)])], tags: vec!["same-code-functions".into(), format!("user-and-generated-{}-userfirst:{}", kind, user_first)] });
            }
        }
        // accessor functions: the whole body is one parameter (or a constant), so after optimisation the
        // function's code is a bare path atom (a leaf of the function environment)
        for (k, (params, body)) in [
            (Pat::list(vec![Pat::n("X"), Pat::n("Y")]), E::v("Y")),
            (Pat::list(vec![Pat::n("X"), Pat::n("Y")]), E::v("X")),
            (Pat::list_tail(vec![Pat::n("X")], Pat::n("Y")), E::v("Y")),
            (Pat::list(vec![Pat::list(vec![Pat::n("X"), Pat::n("Y")]), Pat::n("Z")]), E::v("Y")),
            (Pat::list(vec![Pat::n("X")]), E::int(7)),
        ]
        .into_iter()
        .enumerate()
        {
            for with_other in [false, true] {
                let mut helpers = vec![Helper::Fun { name: "ACC".into(), inline: false, params: params.clone(), body: body.clone() }];
                if with_other {
                    helpers.push(Helper::Fun { name: "OTHER".into(), inline: false, params: Pat::list(vec![Pat::n("P")]), body: E::List(vec![E::int(3), E::v("P")]) });
                }
                let mut ctr = 0;
                let call_args = arg_for(&params, &mut ctr, 0);
                let _ = call_args;
                let body_main = E::List(vec![E::Call("ACC".into(), vec![], Some(Box::new(E::v("A")))), if with_other { E::call("OTHER", vec![E::v("B")]) } else { E::v("B") }]);
                let mut c2 = 0;
                cases.push(Case { prog: Prog { sigil: Some(s), params: Pat::list(vec![Pat::n("A"), Pat::n("B")]), helpers, body: body_main }, args: vec![T::list(&[arg_for(&params, &mut c2, 0), T::int(9)])], tags: vec!["accessor-functions".into(), format!("shape{}-other{}", k, with_other)] });
            }
        }
        let flat: Vec<usize> = if thorough { vec![1, 2, 3, 8, 16, 17, 33] } else { vec![2, 17] };
        for p in param_patterns(if thorough { 3 } else { 2 }, &flat) {
            for kind in ["defun-rest", "defun-positional"] {
                if let Some(c) = params_case(&p, kind, Some(s)) {
                    cases.push(c);
                }
            }
        }
    }
    let n = cases.len() as u64;
    let (st, capped) = par_range(n, 8, cap, || (), |_, st, i| check_c13_case(st, &cases[i as usize], "generated"));
    rep.add_sub("generated", &format!("{} programs with 1..4 user functions plus compiler-synthesised helpers (let/assign/lambda), nested (mod ...) forms with their own functions, 6 sigils, optimise on/off", n), n, true, capped, st);
    rep.finish()
}

// ---------------------------------------------------------------------------
// C17 — an argument reported as unused cannot influence the result

const USE_CLASSES: [&str; 18] = [
    "direct",
    "via-defun",
    "via-inline",
    "via-let",
    "via-lambda-capture",
    "under-condition-on-another-parameter",
    "only-in-raise",
    "not-at-all",
    // conditionals inside conditionals: the use sits in an `if` that is a whole arm / the whole condition of another `if`
    "in-else-if-arm",
    "in-nested-then-arm",
    "in-if-used-as-condition",
    "in-conditional-helper-called-as-arm",
    "after-assert-chain",
    // one conditional helper shared by every parameter of this class (the same `if` is expanded at several call sites)
    "via-shared-conditional-helper",
    // carried through a recursive function to its base case
    "via-recursive-function",
    "let-bound-used-in-if-arm",
    "in-if-arm-next-to-a-multibyte-operator",
    "rest-tail-of-a-primitive",
];
const NCLS: u64 = USE_CLASSES.len() as u64;

/// parameter-name policies: the check works on names (it renames parameters, flattens expressions to sorted name
/// lists, strips names that appear in the result), so the spelling of the names is a dimension of its own
const NAME_POLICIES: [&str; 4] = ["p0 p1 ..", "v0 v1 .. (sort after the letter q)", "alternating a0 z1 b2 ..", "one name a prefix of the next: pa paa paaa"];

fn usecheck_names(k: usize, policy: usize) -> Vec<String> {
    (0..k)
        .map(|i| match policy {
            1 => format!("v{}", i),
            2 => format!("{}{}", if i % 2 == 0 { (b'a' + (i as u8 / 2) % 8) as char } else { (b'z' - (i as u8 / 2) % 8) as char }, i),
            3 => format!("p{}", "a".repeat(i + 1)),
            _ => format!("p{}", i),
        })
        .collect()
}

fn usecheck_program(k: usize, classes: &[usize], shape: usize, sigil: &'static str, policy: usize) -> Prog {
    let names: Vec<String> = usecheck_names(k, policy);
    let params = match shape {
        0 => Pat::list(names.iter().map(|n| Pat::n(n)).collect()),
        1 => {
            // nested: ((p0 p1) p2 ...)
            if k >= 2 {
                let inner = Pat::list(vec![Pat::n(&names[0]), Pat::n(&names[1])]);
                let mut items = vec![inner];
                items.extend(names[2..].iter().map(|n| Pat::n(n)));
                Pat::list(items)
            } else {
                Pat::list(vec![Pat::list(vec![Pat::n(&names[0])])])
            }
        }
        _ => {
            // dotted tail
            let items: Vec<Pat> = names[..k - 1].iter().map(|n| Pat::n(n)).collect();
            Pat::list_tail(items, Pat::n(&names[k - 1]))
        }
    };
    let mut helpers = vec![];
    let mut items = vec![];
    for i in 0..k {
        let p = E::Var(names[i].clone());
        let other = E::Var(names[(i + 1) % k].clone());
        let e = match USE_CLASSES[classes[i]] {
            "direct" => p,
            "via-defun" => {
                helpers.push(Helper::Fun { name: format!("fd{}", i), inline: false, params: Pat::list(vec![Pat::n("X")]), body: E::prim("c", vec![E::v("X"), E::int(1)]) });
                E::call(&format!("fd{}", i), vec![p])
            }
            "via-inline" => {
                helpers.push(Helper::Fun { name: format!("fi{}", i), inline: true, params: Pat::list(vec![Pat::n("X")]), body: E::prim("c", vec![E::v("X"), E::int(2)]) });
                E::call(&format!("fi{}", i), vec![p])
            }
            "via-let" => E::Let(LetKind::Let, vec![(format!("L{}", i), p)], Box::new(E::prim("c", vec![E::Var(format!("L{}", i)), E::int(3)]))),
            "via-lambda-capture" => E::Apply(Box::new(E::Lambda(vec![names[i].clone()], Pat::list(vec![Pat::n("Z")]), Box::new(E::prim("c", vec![E::Var(names[i].clone()), E::v("Z")])))), Box::new(E::List(vec![E::int(4)]))),
            "under-condition-on-another-parameter" => E::If(Box::new(other), Box::new(p), Box::new(E::int(0))),
            "only-in-raise" => E::If(Box::new(E::prim("l", vec![E::int(5)])), Box::new(E::prim("x", vec![p])), Box::new(E::int(7))),
            "in-else-if-arm" => E::If(Box::new(E::prim("=", vec![E::prim("l", vec![other.clone()]), E::int(1)])), Box::new(E::int(11)), Box::new(E::If(Box::new(other), Box::new(E::prim("c", vec![p, E::int(1)])), Box::new(E::int(12))))),
            "in-nested-then-arm" => E::If(Box::new(other.clone()), Box::new(E::If(Box::new(E::prim("l", vec![other])), Box::new(E::int(13)), Box::new(p))), Box::new(E::int(14))),
            "in-if-used-as-condition" => E::If(Box::new(E::If(Box::new(other), Box::new(p), Box::new(E::int(0)))), Box::new(E::int(15)), Box::new(E::int(16))),
            "in-conditional-helper-called-as-arm" => {
                helpers.push(Helper::Fun { name: format!("hc{}", i), inline: false, params: Pat::list(vec![Pat::n("C"), Pat::n("X")]), body: E::If(Box::new(E::v("C")), Box::new(E::v("X")), Box::new(E::int(17))) });
                E::If(Box::new(E::prim("l", vec![other.clone()])), Box::new(E::int(18)), Box::new(E::call(&format!("hc{}", i), vec![other, p])))
            }
            "after-assert-chain" => E::If(Box::new(E::prim("=", vec![other.clone(), E::int(77)])), Box::new(E::prim("x", vec![])), Box::new(E::If(Box::new(E::prim("=", vec![other, E::int(78)])), Box::new(E::prim("x", vec![])), Box::new(E::prim("c", vec![p, E::int(2)]))))),
            "via-shared-conditional-helper" => {
                if !helpers.iter().any(|h| matches!(h, Helper::Fun { name, .. } if name == "sel")) {
                    helpers.push(Helper::Fun { name: "sel".into(), inline: false, params: Pat::list(vec![Pat::n("C"), Pat::n("X")]), body: E::If(Box::new(E::v("C")), Box::new(E::v("X")), Box::new(E::int(19))) });
                }
                E::call("sel", vec![other, p])
            }
            "via-recursive-function" => {
                if !helpers.iter().any(|h| matches!(h, Helper::Fun { name, .. } if name == "walk")) {
                    helpers.push(Helper::Fun { name: "walk".into(), inline: false, params: Pat::list(vec![Pat::n("L"), Pat::n("X")]), body: E::If(Box::new(E::prim("l", vec![E::v("L")])), Box::new(E::call("walk", vec![E::prim("r", vec![E::v("L")]), E::v("X")])), Box::new(E::v("X"))) });
                }
                E::call("walk", vec![other, p])
            }
            "let-bound-used-in-if-arm" => E::Let(LetKind::Let, vec![(format!("LB{}", i), p)], Box::new(E::If(Box::new(other), Box::new(E::Var(format!("LB{}", i))), Box::new(E::int(20))))),
            "in-if-arm-next-to-a-multibyte-operator" => {
                let k1 = |h: &str| E::Lit(format!("0x{}", h), T::A(hex::decode(h).unwrap()));
                let verify = E::prim("secp256k1_verify", vec![
                    k1("02390b19842e100324163334b16947f66125b76d4fa4a11b9ccdde9b7398e64076"),
                    k1("85932e4d075615be881398cc765f9f78204033f0ef5f832ac37e732f5f0cbda2"),
                    k1("481477e62a1d02268127ae89cc58929e09ad5d30229721965ae35965d098a5f630205a7e69f4cb8084f16c7407ed7312994ffbf87ba5eb1aee16682dd324943e"),
                ]);
                E::If(Box::new(other), Box::new(E::prim("c", vec![verify, p])), Box::new(E::int(21)))
            }
            "rest-tail-of-a-primitive" => E::Call("sha256".into(), vec![E::int(1)], Some(Box::new(E::prim("c", vec![p, E::Quote(T::nil())])))),
            _ => E::int(9),
        };
        items.push(e);
    }
    Prog { sigil: Some(sigil), params, helpers, body: E::List(items) }
}

fn fill_pat(p: &Pat, vals: &std::collections::HashMap<String, T>) -> T {
    match p {
        Pat::Name(n) => vals.get(n).cloned().unwrap_or_else(T::nil),
        Pat::Nil => T::nil(),
        Pat::Cons(a, b) => T::p(fill_pat(a, vals), fill_pat(b, vals)),
        Pat::At(_, s) => fill_pat(s, vals),
    }
}

fn unused_report(text: &str, sigil: &str) -> Result<Vec<String>, String> {
    use chialisp::compiler::compiler::DefaultCompilerOpts;
    use chialisp::compiler::comptypes::CompilerOpts;
    use chialisp::compiler::frontend::frontend;
    use chialisp::compiler::sexp::parse_sexp;
    use chialisp::compiler::srcloc::Srcloc;
    use chialisp::compiler::usecheck::check_parameters_used_compileform;
    use std::rc::Rc;
    let text = text.to_string();
    let d = dialect_of(sigil);
    crate::par::catch(std::panic::AssertUnwindSafe(move || {
        let opts: Rc<dyn CompilerOpts> = Rc::new(DefaultCompilerOpts::new("*verif*"));
        let opts = opts.set_dialect(d);
        let forms = parse_sexp(Srcloc::start("*verif*"), text.bytes()).map_err(|e| e.1)?;
        let cf = frontend(opts.clone(), &forms).map_err(|e| e.1)?;
        let set = check_parameters_used_compileform(opts, Rc::new(cf)).map_err(|e| e.1)?;
        let mut v: Vec<String> = set.into_iter().map(|b| String::from_utf8_lossy(&b).to_string()).collect();
        v.sort();
        Ok(v)
    }))
    .unwrap_or_else(|p| Err(format!("PANIC {}", p)))
}

fn check_c17(st: &mut Stats, k: usize, classes: &[usize], shape: usize, sigil: &'static str, policy: usize) {
    st.eval();
    let prog = usecheck_program(k, classes, shape, sigil, policy);
    let text = prog.text();
    let replay = json!({"kind": "c17", "text": text, "sigil": sigil});
    let tag: Vec<&str> = classes.iter().map(|c| USE_CLASSES[*c]).collect();
    let reported = match unused_report(&text, sigil) {
        Ok(r) => r,
        Err(e) => {
            if e.starts_with("PANIC") {
                st.violation("usecheck-panic", format!("{}: {}", text, e), text.len(), replay);
            } else {
                st.outcome("usecheck-error(no claim)");
            }
            return;
        }
    };
    let code = match modern_compile(&text, dialect_of(sigil), &entry_option_sets(sigil)[0].1) {
        Ok(c) => c.code,
        Err(_) => {
            st.outcome("compile-rejected(no claim)");
            return;
        }
    };
    st.outcome(&format!("reported-unused:{}", reported.len()));
    let names: Vec<String> = usecheck_names(k, policy);
    let alpha = [T::nil(), T::int(5), T::p(T::int(7), T::int(9))];
    // all valuations
    let total = (alpha.len() as u64).pow(k as u32);
    let mut outcomes: Vec<Out> = vec![];
    for v in 0..total {
        let mut vals = std::collections::HashMap::new();
        for (i, n) in names.iter().enumerate() {
            vals.insert(n.clone(), alpha[((v / (alpha.len() as u64).pow(i as u32)) % alpha.len() as u64) as usize].clone());
        }
        let out = consensus(&code, &fill_pat(&prog.params, &vals));
        outcomes.push(match out {
            Out::Err(_) => Out::Err("fails".to_string()),
            o => o,
        });
    }
    for r in &reported {
        let i = match names.iter().position(|n| n == r) {
            Some(i) => i,
            None => {
                st.violation("reports-unknown-name", format!("{}: reported unused parameter {:?} is not a parameter", text, r), text.len(), replay.clone());
                continue;
            }
        };
        let stride = (alpha.len() as u64).pow(i as u32);
        let mut influenced = None;
        let mut pairs = 0u64;
        for v in 0..total {
            if (v / stride) % alpha.len() as u64 != 0 {
                continue;
            }
            for d in 1..alpha.len() as u64 {
                pairs += 1;
                if outcomes[v as usize] != outcomes[(v + d * stride) as usize] {
                    influenced = Some((v, v + d * stride));
                }
            }
        }
        st.count("non-interference-pairs-checked", pairs);
        match influenced {
            None => {
                st.outcome(&format!("unused-confirmed:{}", USE_CLASSES[classes[i]]));
                st.nontrivial(&(&text, r));
                st.sample(json!({"program": text, "reported_unused": r, "usage_class": USE_CLASSES[classes[i]], "pairs_checked": pairs}));
            }
            Some((a, b)) => {
                st.violation(
                    &format!("reported-unused-but-influences/{}", USE_CLASSES[classes[i]]),
                    format!("{}: parameter {} ({}) is reported unused, but valuations #{} and #{} differing only in it give {} and {} (usage classes {:?})", text, r, USE_CLASSES[classes[i]], a, b, outcomes[a as usize].short(), outcomes[b as usize].short(), tag),
                    text.len(),
                    replay.clone(),
                );
            }
        }
    }
    // informational: which used-looking classes were reported (completeness is not claimed)
    for (i, n) in names.iter().enumerate() {
        if !reported.contains(n) {
            st.count(&format!("not-reported:{}", USE_CLASSES[classes[i]]), 1);
        }
    }
}

/// Programs in which one parameter is used ONLY below a helper that recurses on a constant counter (depth 3..40: the
/// deeper ones exceed the evaluator's stack limit, so the use-check may decline - but it may not report the parameter).
fn deep_helper_programs() -> Vec<(String, Prog, Vec<String>, usize)> {
    let mut out = vec![];
    let sigils: [&'static str; 2] = ["*standard-cl-21*", "*standard-cl-23*"];
    for s in sigils {
        for depth in [3i64, 8, 12, 16, 20, 25, 40] {
            for helper in ["count-down-returns-argument", "nth-of-list"] {
                for ctx in ["alone", "beside-a-direct-use", "in-if-arm-on-another-parameter", "in-let"] {
                    let h = match helper {
                        "count-down-returns-argument" => Helper::Fun { name: "deep".into(), inline: false, params: Pat::list(vec![Pat::n("N"), Pat::n("X")]), body: E::If(Box::new(E::v("N")), Box::new(E::call("deep", vec![E::prim("-", vec![E::v("N"), E::int(1)]), E::v("X")])), Box::new(E::v("X"))) },
                        _ => Helper::Fun { name: "deep".into(), inline: false, params: Pat::list(vec![Pat::n("N"), Pat::n("X")]), body: E::If(Box::new(E::v("N")), Box::new(E::call("deep", vec![E::prim("-", vec![E::v("N"), E::int(1)]), E::prim("r", vec![E::v("X")])])), Box::new(E::prim("f", vec![E::v("X")]))) },
                    };
                    let call = E::call("deep", vec![E::int(depth), E::v("p1")]);
                    let body = match ctx {
                        "alone" => call,
                        "beside-a-direct-use" => E::prim("c", vec![E::v("p2"), call]),
                        "in-if-arm-on-another-parameter" => E::If(Box::new(E::v("p2")), Box::new(call), Box::new(E::int(9))),
                        _ => E::Let(LetKind::Let, vec![("L".to_string(), call)], Box::new(E::prim("c", vec![E::v("L"), E::v("p2")]))),
                    };
                    let names: Vec<String> = vec!["p0".into(), "p1".into(), "p2".into()];
                    let prog = Prog { sigil: Some(s), params: Pat::list(names.iter().map(|n| Pat::n(n)).collect()), helpers: vec![h], body };
                    out.push((format!("{}/{}/depth{}", helper, ctx, depth), prog, names, 1));
                }
            }
        }
    }
    out
}

fn check_c17_deep(st: &mut Stats, tag: &str, prog: &Prog, names: &[String], sigil: &'static str) {
    st.eval();
    let text = prog.text();
    let replay = json!({"kind": "c17", "text": text, "sigil": sigil});
    let reported = match unused_report(&text, sigil) {
        Ok(r) => r,
        Err(e) => {
            if e.starts_with("PANIC") {
                st.violation("usecheck-panic", format!("{}: {}", text, e), text.len(), replay);
            } else {
                st.outcome("usecheck-declined(no claim)");
            }
            return;
        }
    };
    let code = match modern_compile(&text, dialect_of(sigil), &entry_option_sets(sigil)[0].1) {
        Ok(c) => c.code,
        Err(_) => {
            st.outcome("compile-rejected(no claim)");
            return;
        }
    };
    st.outcome(&format!("reported-unused:{}", reported.len()));
    let long = |base: i64| T::list(&(0..48).map(|i| T::int(base + i)).collect::<Vec<_>>());
    let alpha = [T::nil(), T::int(5), long(100), long(300)];
    let k = names.len();
    let total = (alpha.len() as u64).pow(k as u32);
    let outcomes: Vec<Out> = (0..total)
        .map(|v| {
            let mut vals = std::collections::HashMap::new();
            for (i, n) in names.iter().enumerate() {
                vals.insert(n.clone(), alpha[((v / (alpha.len() as u64).pow(i as u32)) % alpha.len() as u64) as usize].clone());
            }
            match consensus(&code, &fill_pat(&prog.params, &vals)) {
                Out::Err(_) => Out::Err("fails".to_string()),
                o => o,
            }
        })
        .collect();
    for r in &reported {
        let i = match names.iter().position(|n| n == r) {
            Some(i) => i,
            None => {
                st.violation("reports-unknown-name", format!("{}: reported unused parameter {:?} is not a parameter", text, r), text.len(), replay.clone());
                continue;
            }
        };
        let stride = (alpha.len() as u64).pow(i as u32);
        let mut influenced = None;
        let mut pairs = 0u64;
        for v in 0..total {
            if (v / stride) % alpha.len() as u64 != 0 {
                continue;
            }
            for d in 1..alpha.len() as u64 {
                pairs += 1;
                if outcomes[v as usize] != outcomes[(v + d * stride) as usize] {
                    influenced = Some((v, v + d * stride));
                }
            }
        }
        st.count("non-interference-pairs-checked", pairs);
        match influenced {
            None => {
                st.outcome("unused-confirmed");
                st.nontrivial(&(&text, r));
            }
            Some((a, b)) => st.violation(
                &format!("reported-unused-but-influences/deep-helper/{}", tag.rsplit_once('/').map(|x| x.0).unwrap_or(tag)),
                format!("{}: parameter {} is reported unused, but valuations #{} and #{} differing only in it give {} and {}", text, r, a, b, outcomes[a as usize].short(), outcomes[b as usize].short()),
                text.len(),
                replay.clone(),
            ),
        }
    }
    if !reported.contains(&"p1".to_string()) {
        st.count("deep-parameter-not-reported", 1);
    }
}

pub fn c17(thorough: bool, replay: Option<String>) -> i32 {
    let mut rep = Report::new("C17", if thorough { "thorough" } else { "quick" }, "exploration");
    rep.rule = "programs with k lower-case parameters in flat, nested and dotted parameter lists where each parameter is independently in one of 18 usage classes (direct; only through a defun / an inline / a let / a lambda capture; only under a condition on another parameter; only as the argument of a raise; not at all; and inside conditionals nested in conditionals: in an else-if arm, in a nested then-arm, in an `if` used as a condition, in a conditional helper called as a whole arm, after a chain of assertions; through one conditional helper shared by several parameters; through a recursive function; let-bound and used in an `if` arm; in an `if` arm next to a multi-byte operator; as the &rest tail of a primitive): ALL 18^k assignments for k <= 3 (thorough: k = 4 as well), 3 list shapes, 2 sigils. \
        For every parameter reported by check_parameters_used_compileform, ALL pairs of argument valuations differing only in that parameter (values from {(), 5, (7 . 9)}, the other parameters over the same alphabet, all combinations) must give identical outcomes (same value, or failure on both sides) of the compiled program under clvmr. non-trivial = distinct (program, reported parameter) pairs confirmed non-interfering"
        .to_string();
    rep.assumptions = vec!["completeness of the report is not claimed by the property and not checked (counted for information)".to_string()];
    if replay.is_some() {
        let st = Stats::new();
        rep.add_sub("replay", "re-run the check; replay files carry the program text", 0, false, false, st);
        return rep.finish();
    }
    let cap = Some(Duration::from_secs(if thorough { 3000 } else { 50 }));
    let sigils: [&'static str; 2] = ["*standard-cl-21*", "*standard-cl-23*"];
    let mut plan: Vec<(usize, Vec<usize>, usize, &'static str, usize)> = vec![];
    let maxk = if thorough { 4 } else { 3 };
    for k in 1..=maxk {
        let total = NCLS.pow(k as u32);
        for a in 0..total {
            let classes: Vec<usize> = (0..k).map(|i| ((a / NCLS.pow(i as u32)) % NCLS) as usize).collect();
            for shape in 0..3 {
                if shape == 2 && k < 2 {
                    continue;
                }
                for s in sigils {
                    if !thorough && k == 3 && (s != sigils[0] || shape != 0) {
                        continue;
                    }
                    for policy in 0..NAME_POLICIES.len() {
                        // the name policies other than the first: k <= 2 in the quick tier, and k = 3 with cl21 / flat list in the thorough tier
                        if policy > 0 && ((!thorough && (k > 2 || s != sigils[0])) || (thorough && k > 3)) {
                            continue;
                        }
                        plan.push((k, classes.clone(), shape, s, policy));
                    }
                }
            }
        }
    }
    let n = plan.len() as u64;
    let (st, capped) = par_range(n, 8, cap, || (), |_, st, i| {
        let (k, classes, shape, s, policy) = &plan[i as usize];
        check_c17(st, *k, classes, *shape, s, *policy);
    });
    {
        let deep = deep_helper_programs();
        let (dst, dcap) = par_range(deep.len() as u64, 8, cap, || (), |_, st, i| {
            let (tag, prog, names, _) = &deep[i as usize];
            check_c17_deep(st, tag, prog, names, prog.sigil.unwrap());
        });
        rep.add_sub("deep-helper-chains", "a parameter used ONLY below a helper that recurses on a constant counter, depth 3, 8, 12, 16, 20, 25, 40 (the deeper ones exceed the partial evaluator's stack limit: the check may decline, it may not report the parameter) x 2 helper shapes x 4 contexts x 2 sigils; valuations over {(), 5, two 48-element lists} for all three parameters, all pairs differing in the reported one", deep.len() as u64, true, dcap, dst);
    }
    rep.add_sub("usage-classes", &format!("all 18^k usage-class assignments for k = 1..{} x 3 parameter-list shapes x 2 sigils x 4 parameter-name policies (p0 p1 ..; names sorting after q; alternating a../z..; names that are prefixes of each other - the last three for k <= 2 in the quick tier) ({} programs), each with all 3^k valuations", maxk, n), n, true, capped, st);
    rep.finish()
}
