//! Program-level engines over the generated surface-language programs:
//! C01 (compiled code computes what the source means).
use crate::gen::*;
use crate::lang::*;
use crate::oracle::{consensus, Out};
use crate::par::par_range;
use crate::report::{Report, Stats};
use crate::subject::*;
use crate::tree::*;
use serde_json::json;
use std::time::Duration;

use chialisp::compiler::dialect::{AcceptedDialect, KNOWN_DIALECTS};

pub fn dialect_of(sigil: &str) -> AcceptedDialect {
    KNOWN_DIALECTS.get(sigil).expect("known sigil").accepted.clone()
}

/// The option sets the entry points derive for a sigil: `run` without -O, and `run -O` / the library entry.
pub fn entry_option_sets(sigil: &str) -> Vec<(&'static str, ModernOpts)> {
    let d = dialect_of(sigil);
    let stepping = d.stepping.unwrap_or(21);
    vec![
        ("run", ModernOpts { optimize: stepping > 22, frontend_opt: stepping == 22, post_opt: false, ..Default::default() }),
        ("run-O/library", ModernOpts { optimize: true, frontend_opt: stepping == 22, post_opt: true, ..Default::default() }),
    ]
}

pub fn reference(prog: &Prog, args: &T) -> Result<T, NoValue> {
    Interp::new(prog).run(args)
}

pub struct CaseResult {
    pub compiled: bool,
    pub any_reference_value: bool,
}

fn short_sigil(s: &str) -> &str {
    match s {
        "*standard-cl-21*" => "cl21",
        "*strict-cl-21*" => "strict21",
        "*standard-cl-22*" => "cl22",
        "*standard-cl-23*" => "cl23",
        "*standard-cl-23.1*" => "cl23.1",
        "*standard-cl-24*" => "cl24",
        _ => s,
    }
}

fn strip_variant(t: &str) -> String {
    t.trim_end_matches(|c: char| c == '0' || c == '1').to_string()
}

fn all_names(p: &Prog) -> Vec<String> {
    fn pe(e: &E, out: &mut Vec<String>) {
        match e {
            E::Var(n) => out.push(n.clone()),
            E::Lit(_, _) | E::Quote(_) | E::QuoteSym(_) => {}
            E::Prim(_, a) | E::List(a) | E::MacroCall(_, a) => a.iter().for_each(|x| pe(x, out)),
            E::If(c, t, f) => {
                pe(c, out);
                pe(t, out);
                pe(f, out);
            }
            E::Call(_, a, r) => {
                a.iter().for_each(|x| pe(x, out));
                if let Some(r) = r {
                    pe(r, out);
                }
            }
            E::Let(_, bs, b) => {
                bs.iter().for_each(|(n, x)| {
                    out.push(n.clone());
                    pe(x, out)
                });
                pe(b, out);
            }
            E::Assign(_, bs, b) => {
                bs.iter().for_each(|(p, x)| {
                    p.names(out);
                    pe(x, out)
                });
                pe(b, out);
            }
            E::Lambda(c, p, b) => {
                out.extend(c.iter().cloned());
                p.names(out);
                pe(b, out);
            }
            E::Apply(f, a) => {
                pe(f, out);
                pe(a, out);
            }
        }
    }
    let mut out = vec![];
    p.params.names(&mut out);
    for h in &p.helpers {
        match h {
            Helper::Fun { params, body, .. } => {
                params.names(&mut out);
                pe(body, &mut out);
            }
            Helper::Const { body, .. } => pe(body, &mut out),
            Helper::Macro { params, template, .. } => {
                out.extend(params.iter().cloned());
                pe(template, &mut out);
            }
            _ => {}
        }
    }
    pe(&p.body, &mut out);
    out.sort();
    out.dedup();
    out
}

fn leaks_a_name(v: &T, names: &[String]) -> bool {
    match v {
        T::A(b) => {
            let s = String::from_utf8_lossy(b);
            s.contains("_$_") || names.iter().any(|n| n.as_bytes() == &b[..])
        }
        T::P(x, y) => leaks_a_name(x, names) || leaks_a_name(y, names),
    }
}

fn body_has_binder(e: &E) -> bool {
    match e {
        E::Let(_, _, _) | E::Assign(_, _, _) => true,
        E::Prim(_, a) | E::List(a) | E::MacroCall(_, a) => a.iter().any(body_has_binder),
        E::If(c, t, f) => body_has_binder(c) || body_has_binder(t) || body_has_binder(f),
        E::Call(_, a, r) => a.iter().any(body_has_binder) || r.as_ref().map(|r| body_has_binder(r)).unwrap_or(false),
        E::Lambda(_, _, b) => body_has_binder(b),
        E::Apply(f, a) => body_has_binder(f) || body_has_binder(a),
        _ => false,
    }
}

fn pat_has_at(p: &Pat) -> bool {
    match p {
        Pat::At(_, _) => true,
        Pat::Cons(a, b) => pat_has_at(a) || pat_has_at(b),
        _ => false,
    }
}

/// Signature of a C01 disagreement. Root-cause classes that are recorded as known findings are
/// recognised by program features + dialect + symptom; everything else is named by construct
/// family, dialect and option set.
fn contains_quoted_64(t: &T) -> bool {
    match t {
        T::P(a, b) => (**a == T::int(1) && **b == T::int(64)) || contains_quoted_64(a) || contains_quoted_64(b),
        _ => false,
    }
}

fn c01_sig(case: &Case, sigil: &str, optname: &str, kind: &str, got: Option<&Out>, code: Option<&T>) -> String {
    let d = dialect_of(sigil);
    let text = case.prog.text();
    if kind == "wrong-result" {
        if sigil == "*standard-cl-22*" {
            let names = all_names(&case.prog);
            let leaked_value = matches!(got, Some(Out::Val(v)) if leaks_a_name(v, &names));
            let leaked_code = code.map(|c| leaks_a_name(c, &[])).unwrap_or(false);
            if leaked_value || leaked_code {
                return "cl22-frontend-optimiser/variable-replaced-by-its-name".to_string();
            }
        }
        if sigil == "*strict-cl-21*" && optname != "run" && code.map(|c| contains_quoted_64(c)).unwrap_or(false) {
            return "strict-cl21-optimised/@-becomes-(q . 64)".to_string();
        }
        if !d.int_fix && (text.contains(" 0x00 ") || text.contains(" 0x0000 ") || text.contains(" 0x00)") || text.contains(" 0x0000)")) {
            return format!("legacy-int-mode/all-zero-literal/{}", short_sigil(sigil));
        }
        for h in &case.prog.helpers {
            if let Helper::Fun { params, body, .. } = h {
                let _ = body;
                if pat_has_at(params) {
                    return "function/@-capture-in-parameter-list".to_string();
                }
            }
        }
    }
    let t0 = strip_variant(&case.tags.first().cloned().unwrap_or_default());
    let t1 = strip_variant(&case.tags.get(1).cloned().unwrap_or_default());
    format!("{}/{}+{}/{}/{}", kind, t0, t1, short_sigil(sigil), optname)
}

pub fn check_c01_case(st: &mut Stats, case: &Case, sub: &str) {
    let sigil = case.prog.sigil.expect("modern programs carry a sigil");
    let text = case.prog.text();
    let refs: Vec<Result<T, NoValue>> = case.args.iter().map(|a| reference(&case.prog, a)).collect();
    let nvals = refs.iter().filter(|r| r.is_ok()).count();
    for (optname, o) in entry_option_sets(sigil) {
        st.eval();
        let replay = json!({"kind": "c01", "text": text, "sigil": sigil, "opts": optname, "args": case.args.iter().map(|a| a.hex()).collect::<Vec<_>>(), "expect": refs.iter().map(|r| r.as_ref().ok().map(|t| t.hex())).collect::<Vec<_>>()});
        match modern_compile(&text, dialect_of(sigil), &o) {
            Err(e) => {
                if e.is_panic() {
                    st.outcome("compile-PANIC");
                    st.violation(&c01_sig(case, sigil, optname, "compile-panic", None, None), format!("{} [{}]: compiler panics: {}", text, optname, e.msg()), text.len(), replay);
                } else {
                    st.outcome(&format!("rejected/{}", short_sigil(sigil)));
                    st.count(&format!("rejected[{}]", e.msg().chars().take(60).collect::<String>()), 1);
                }
            }
            Ok(c) => {
                st.outcome(&format!("accepted/{}", short_sigil(sigil)));
                for (a, r) in case.args.iter().zip(refs.iter()) {
                    let v = match r {
                        Ok(v) => v,
                        Err(_) => {
                            st.count("reference-has-no-value(no claim)", 1);
                            continue;
                        }
                    };
                    match consensus(&c.code, a) {
                        Out::Val(g) if g == *v => {
                            st.count("agree", 1);
                            st.nontrivial(&(&text, optname, a));
                            st.sample(json!({"sub": sub, "program": text, "opts": optname, "args": a.short(), "value": v.short()}));
                        }
                        Out::Limit => st.count("cost-limit(no claim)", 1),
                        other => {
                            st.outcome("DISAGREE");
                            st.violation(
                                &c01_sig(case, sigil, optname, "wrong-result", Some(&other), Some(&c.code)),
                                format!("{} [{} / {}] on {}: source means {}, compiled code gives {} (code {})", text, short_sigil(sigil), optname, a.short(), v.short(), other.short(), c.code.short()),
                                text.len(),
                                replay.clone(),
                            );
                        }
                    }
                }
            }
        }
    }
    if nvals == 0 {
        st.count("programs-without-any-reference-value", 1);
    }
}

pub struct Spaces {
    pub scope: Vec<(Vec<(usize, usize)>, NamePolicy)>,
    pub pats: Vec<(Pat, &'static str)>,
    pub kernel: Vec<(E, usize)>,
}

pub fn build_spaces(thorough: bool) -> Spaces {
    let k = if thorough { 3 } else { 2 };
    let chains = scope_chains(k);
    let mut scope = vec![];
    for c in &chains {
        for p in [NamePolicy::Fresh, NamePolicy::SameEverywhere, NamePolicy::ShadowParams] {
            // quick: length-2 chains with equal binding variants only; shadowing policies on half of those
            if !thorough && c.len() >= 2 && (c[0].1 != c[1].1 || (p != NamePolicy::Fresh && c[0].1 == 1)) {
                continue;
            }
            scope.push((c.clone(), p));
        }
    }
    let flat: Vec<usize> = if thorough { (1..=40).collect() } else { vec![1, 2, 3, 8, 15, 16, 17, 32, 40] };
    let mut pats = vec![];
    for p in param_patterns(if thorough { 4 } else { 3 }, &flat) {
        for kind in PARAM_KINDS {
            pats.push((p.clone(), kind));
        }
        // identifier policy: operator-lookalike lower-case names, two rotations (q first / r first …)
        let mut n = vec![];
        p.names(&mut n);
        if n.len() <= 4 {
            for rot in 0..(if thorough { 8 } else { 1 }) {
                if let Some(q) = lookalike_pattern(&p, rot) {
                    for kind in ["main", "defun-rest", "inline-rest", "lambda"] {
                        pats.push((q.clone(), kind));
                    }
                }
            }
        }
    }
    let mut kernel = vec![];
    let ke = kernel_exprs(if thorough { 2 } else { 1 });
    for e in ke {
        for pos in 0..(if thorough { 3 } else { 1 }) {
            kernel.push((e.clone(), pos));
        }
    }
    Spaces { scope, pats, kernel }
}

pub fn c01(thorough: bool, replay: Option<String>) -> i32 {
    let mut rep = Report::new("C01", if thorough { "thorough" } else { "quick" }, "exploration");
    rep.rule = "every program of the generated sub-spaces (SCOPE binder chains, PARAMS parameter shapes, OPLIT operators/literals per position, CALLS call graphs and rest arguments, KERNEL small expressions) x 6 dialect sigils is rendered to text from the harness's own AST, compiled by compile_file under both option sets the entry points derive for that sigil (run; run -O / library incl. the classic post-optimiser), and run by clvmr on 2-3 argument valuations. \
        One-directional oracle: whenever the harness's reference interpreter (call-by-value, operators applied by clvmr) returns v, the compiled program must return exactly v; programs the compiler rejects make no claim (counted per dialect). non-trivial = distinct (program text, option set, argument) triples on which the reference returned a value and the compiled code agreed"
        .to_string();
    rep.assumptions = vec![
        "the reference interpreter in harness/src/lang.rs states the language's call-by-value meaning for the generated fragment".to_string(),
        "clvmr defines operator semantics and is the consensus evaluator".to_string(),
    ];
    if let Some(path) = replay {
        let v: serde_json::Value = serde_json::from_str(&std::fs::read_to_string(&path).expect("read replay")).expect("json");
        let r = &v["replay"];
        let text = r["text"].as_str().unwrap().to_string();
        let sigil = r["sigil"].as_str().unwrap();
        let mut st = Stats::new();
        for _ in 0..2 {
            for (optname, o) in entry_option_sets(sigil) {
                if Some(optname) != r["opts"].as_str() {
                    continue;
                }
                st.eval();
                match modern_compile(&text, dialect_of(sigil), &o) {
                    Ok(c) => {
                        for (a, e) in r["args"].as_array().unwrap().iter().zip(r["expect"].as_array().unwrap().iter()) {
                            if let Some(eh) = e.as_str() {
                                let a = crate::clvmmc::t_from_hex(a.as_str().unwrap());
                                let want = crate::clvmmc::t_from_hex(eh);
                                let got = consensus(&c.code, &a);
                                if got != Out::Val(want.clone()) {
                                    st.violation("replay/wrong-result", format!("{} [{}] on {}: expected {}, got {}", text, optname, a.short(), want.short(), got.short()), text.len(), r.clone());
                                }
                            }
                        }
                    }
                    Err(e) => eprintln!("compile error: {}", e.msg()),
                }
            }
        }
        rep.add_sub("replay", "one case", 1, false, false, st);
        return rep.finish();
    }
    let cap = Some(Duration::from_secs(if thorough { 3000 } else { 50 }));
    let sp = build_spaces(thorough);
    let ns = SIGILS.len() as u64;

    let n = sp.scope.len() as u64 * ns;
    let (st, capped) = par_range(n, 16, cap, || (), |_, st, i| {
        let (chain, pol) = &sp.scope[(i / ns) as usize];
        let case = scope_case(chain, *pol, Some(SIGILS[(i % ns) as usize]));
        check_c01_case(st, &case, "SCOPE");
    });
    rep.add_sub("SCOPE", &format!("binder chains of length 1..{} over 13 binders x 2 binding variants x name policies (fresh, same name in every scope, shadowing the parameters) x 6 sigils x 2 option sets x 2 valuations", if thorough { 3 } else { 2 }), n, true, capped, st);

    let n = sp.pats.len() as u64 * ns;
    let (st, capped) = par_range(n, 16, cap, || (), |_, st, i| {
        let (p, kind) = &sp.pats[(i / ns) as usize];
        if let Some(case) = params_case(p, kind, Some(SIGILS[(i % ns) as usize])) {
            check_c01_case(st, &case, "PARAMS");
        }
    });
    rep.add_sub("PARAMS", &format!("every parameter tree with <= {} leaves (names, (), cons, (@ n p)), flat lists and improper tails of {} lengths, in 6 function kinds (main, defun/inline via &rest, lambda, defun/inline positional) x 6 sigils x 2 option sets x 2-3 valuations", if thorough { 4 } else { 3 }, if thorough { "1..40".to_string() } else { "9 boundary".to_string() }), n, true, capped, st);

    let mut oplit: Vec<Case> = vec![];
    for s in SIGILS {
        oplit.extend(oplit_cases(Some(s)));
    }
    let n = oplit.len() as u64;
    let (st, capped) = par_range(n, 16, cap, || (), |_, st, i| check_c01_case(st, &oplit[i as usize], "OPLIT"));
    rep.add_sub("OPLIT", "every literal of the boundary set and every value-returning operator (on parameters and on constants), quoted data and quoted symbols, in 6 positions (main body, function argument, inline argument, defconst, macro argument, let binding) x 6 sigils x 2 option sets x 3 valuations", n, true, capped, st);

    let mut calls: Vec<Case> = vec![];
    for s in SIGILS {
        calls.extend(calls_cases(Some(s), if thorough { 3 } else { 2 }));
    }
    let n = calls.len() as u64;
    let (st, capped) = par_range(n, 8, cap, || (), |_, st, i| check_c01_case(st, &calls[i as usize], "CALLS"));
    rep.add_sub("CALLS", "recursion, mutual recursion, constant/zero-argument calls inside helpers, every defun/inline assignment of call chains with a &rest tail at every call site, and every (parameters 1..4, given 0..n) combination of a &rest call with missing positional arguments, x 6 sigils x 2 option sets", n, true, capped, st);

    let n = sp.kernel.len() as u64 * ns;
    let (st, capped) = par_range(n, 16, cap, || (), |_, st, i| {
        let (e, pos) = &sp.kernel[(i / ns) as usize];
        check_c01_case(st, &kernel_case(e, *pos, Some(SIGILS[(i % ns) as usize])), "KERNEL");
    });
    rep.add_sub("KERNEL", &format!("every expression of depth <= {} over A, B, a literal, a quoted list, f r c + = list if (with a raise in the untaken branch), placed in {} x 6 sigils", if thorough { 2 } else { 1 }, if thorough { "main / defun body / inline body" } else { "main" }), n, true, capped, st);
    rep.finish()
}
