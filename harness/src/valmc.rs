//! Value-level engines: C08 (binary (de)serialisation), C20 (operator tables).
use crate::par::{catch, par_range};
use crate::report::{Report, Stats};
use crate::tree::*;
use serde_json::json;
use std::time::Duration;

use chialisp::classic::clvm::__type_compatibility__::{Bytes, BytesFromType, Stream};
use chialisp::classic::clvm::serialize::{sexp_from_stream, sexp_to_stream, SimpleCreateCLVMObject};
use clvmr::allocator::Allocator;
use clvmr::serde::{node_from_bytes, node_to_bytes_limit};

// ---------------------------------------------------------------------------
// C08

#[derive(Debug, Clone, PartialEq, Eq)]
enum Dec {
    Val(T),
    Err,
    Panic(String),
}

fn ours_decode(bytes: &[u8]) -> Dec {
    let b = bytes.to_vec();
    match catch(move || {
        let mut a = Allocator::new();
        let mut s = Stream::new(Some(Bytes::new(Some(BytesFromType::Raw(b)))));
        match sexp_from_stream(&mut a, &mut s, Box::new(SimpleCreateCLVMObject {})) {
            Ok(r) => Dec::Val(T::from_node(&a, r.1)),
            Err(_) => Dec::Err,
        }
    }) {
        Ok(d) => d,
        Err(p) => Dec::Panic(p),
    }
}

fn consensus_decode(bytes: &[u8]) -> Dec {
    let mut a = Allocator::new();
    match node_from_bytes(&mut a, bytes) {
        Ok(n) => Dec::Val(T::from_node(&a, n)),
        Err(_) => Dec::Err,
    }
}

fn ours_encode(t: &T) -> Result<Vec<u8>, String> {
    let t = t.clone();
    catch(move || {
        let mut a = Allocator::new();
        let n = t.to_node(&mut a);
        let mut s = Stream::new(None);
        sexp_to_stream(&mut a, n, &mut s);
        s.get_value().data().clone()
    })
}

fn consensus_encode(t: &T) -> Vec<u8> {
    let mut a = Allocator::new();
    let n = t.to_node(&mut a);
    node_to_bytes_limit(&a, n, usize::MAX).expect("consensus serialiser")
}

/// Classifier for decoder disagreements: names the input class.
fn c08_decode_sig(bytes: &[u8], ours: &Dec, cons: &Dec) -> String {
    let first = bytes.first().copied().unwrap_or(0);
    let kind = match (ours, cons) {
        (Dec::Panic(_), _) => "panic",
        (Dec::Val(_), Dec::Err) => "accepts-what-consensus-rejects",
        (Dec::Val(_), Dec::Val(_)) => "different-value",
        _ => "other",
    };
    // position of the first atom prefix whose class looks responsible
    let class = match first {
        0xfe => "7-byte-length-prefix(0xfe)",
        0xfc..=0xfd => "6-byte-length-prefix",
        0xf8..=0xfb => "5-byte-length-prefix",
        0xf0..=0xf7 => "4-byte-length-prefix",
        0xe0..=0xef => "3-byte-length-prefix",
        0xc0..=0xdf => "2-byte-length-prefix",
        0xff => "pair",
        _ => "short",
    };
    format!("decode/{}/{}", kind, class)
}

fn check_decode(st: &mut Stats, bytes: &[u8]) {
    st.eval();
    let ours = ours_decode(bytes);
    let cons = consensus_decode(bytes);
    let ok = match (&ours, &cons) {
        (Dec::Panic(_), _) => false,
        (Dec::Err, _) => true,
        (Dec::Val(v), Dec::Val(w)) => v == w,
        (Dec::Val(_), _) => false,
    };
    let key = format!(
        "ours={}/consensus={}",
        match ours {
            Dec::Val(_) => "value",
            Dec::Err => "error",
            Dec::Panic(_) => "panic",
        },
        match cons {
            Dec::Val(_) => "value",
            _ => "error",
        }
    );
    st.outcome(&key);
    if let (Dec::Val(v), Dec::Val(_)) = (&ours, &cons) {
        st.nontrivial(v);
        st.sample(json!({"bytes": hex::encode(bytes), "decoded": v.short()}));
    }
    if !ok {
        let sig = c08_decode_sig(bytes, &ours, &cons);
        st.violation(
            &sig,
            format!("bytes {} : ours {:?}, consensus decoder {:?}", hex::encode(bytes), short_dec(&ours), short_dec(&cons)),
            bytes.len(),
            json!({"kind": "decode", "bytes": hex::encode(bytes)}),
        );
    }
}

fn short_dec(d: &Dec) -> String {
    match d {
        Dec::Val(v) => format!("value {}", v.short()),
        Dec::Err => "error".to_string(),
        Dec::Panic(p) => format!("panic {}", p),
    }
}

fn check_roundtrip(st: &mut Stats, t: &T, truncations: bool) {
    st.eval();
    let size = t.bytes().len();
    let want = consensus_encode(t);
    let own = t.bytes();
    if own != want {
        // harness serialiser disagrees with clvmr: machinery error, not a verdict
        panic!("harness serialiser disagrees with consensus on {}", t.short());
    }
    let lenclass = max_atom_len(t);
    match ours_encode(t) {
        Err(p) => {
            st.outcome("encode-panic");
            st.violation("encode/panic", format!("sexp_to_stream panics on {}: {}", t.short(), p), size, json!({"kind":"roundtrip","hex": replay_hex(t)}));
            return;
        }
        Ok(b) => {
            if b != want {
                st.outcome("encode-differs");
                st.violation(
                    &format!("encode/differs/{}", len_class_name(lenclass)),
                    format!("sexp_to_stream({}) = {}… consensus {}…", t.short(), hex::encode(&b[..b.len().min(12)]), hex::encode(&want[..want.len().min(12)])),
                    size,
                    json!({"kind":"roundtrip","hex": replay_hex(t)}),
                );
                return;
            }
        }
    }
    match ours_decode(&want) {
        Dec::Val(v) if v == *t => {
            st.outcome("roundtrip-ok");
            st.nontrivial(&want);
            if size < 64 {
                st.sample(json!({"value": t.short(), "bytes": hex::encode(&want)}));
            }
        }
        other => {
            st.outcome("roundtrip-bad");
            st.violation(
                &format!("roundtrip/{}", len_class_name(lenclass)),
                format!("value with largest atom {} bytes (encoding starts {}) decodes to {}", lenclass, hex::encode(&want[..want.len().min(8)]), short_dec(&other)),
                size,
                json!({"kind":"roundtrip","hex": replay_hex(t)}),
            );
        }
    }
    if truncations {
        // every truncation at every offset must be rejected or agree with consensus
        let offs: Vec<usize> = if want.len() <= 300 { (0..want.len()).collect() } else {
            let mut v: Vec<usize> = (0..12).collect();
            v.extend([want.len() / 2, want.len() - 2, want.len() - 1]);
            v
        };
        for k in offs {
            check_decode(st, &want[..k]);
        }
    }
}

fn replay_hex(t: &T) -> String {
    let b = t.bytes();
    if b.len() <= 4096 {
        hex::encode(b)
    } else {
        format!("pattern:{}", t_pattern_desc(t))
    }
}

fn t_pattern_desc(t: &T) -> String {
    match t {
        T::A(v) => format!("A{}", v.len()),
        T::P(a, b) => format!("({} . {})", t_pattern_desc(a), t_pattern_desc(b)),
    }
}

fn max_atom_len(t: &T) -> usize {
    match t {
        T::A(v) => v.len(),
        T::P(a, b) => max_atom_len(a).max(max_atom_len(b)),
    }
}

fn len_class_name(n: usize) -> &'static str {
    if n == 0 {
        "len0"
    } else if n == 1 {
        "len1"
    } else if n < 0x40 {
        "len<0x40"
    } else if n < 0x2000 {
        "len<0x2000"
    } else if n < 0x100000 {
        "len<0x100000"
    } else if n < 0x8000000 {
        "len>=0x100000"
    } else {
        "len>=0x8000000"
    }
}

pub fn c08(thorough: bool, replay: Option<String>) -> i32 {
    let mut rep = Report::new("C08", if thorough { "thorough" } else { "quick" }, "exploration");
    rep.rule = "decoder inputs: every byte string in the stated finite sets, each decoded by sexp_from_stream and by clvmr node_from_bytes; \
        required: ours returns a value only if the consensus decoder returns the same value, never panics. Round trips: every tree in the stated sets \
        serialised by sexp_to_stream (must equal clvmr node_to_bytes byte for byte) and decoded again (must equal the tree), plus every truncation of the encoding. \
        non-trivial = distinct decoded values (decoder) / distinct encodings that round-trip (trees)"
        .to_string();
    rep.assumptions = vec![
        "clvmr 0.16.2 node_to_bytes/node_from_bytes are the consensus (de)serialiser".to_string(),
        "trailing bytes after a complete value are ignored by both decoders, which counts as agreement".to_string(),
    ];
    if let Some(path) = replay {
        let v: serde_json::Value = serde_json::from_str(&std::fs::read_to_string(&path).expect("read replay")).expect("json");
        let r = &v["replay"];
        let mut st = Stats::new();
        if r["kind"] == "decode" {
            let b = hex::decode(r["bytes"].as_str().unwrap()).unwrap();
            check_decode(&mut st, &b);
            check_decode(&mut st, &b);
        } else {
            let h = r["hex"].as_str().unwrap();
            if let Some(_p) = h.strip_prefix("pattern:") {
                eprintln!("pattern replays are re-generated by the sweep; run the check");
            } else {
                let b = hex::decode(h).unwrap();
                if let Dec::Val(t) = consensus_decode(&b) {
                    check_roundtrip(&mut st, &t, true);
                }
            }
        }
        rep.add_sub("replay", "one case", 1, false, false, st);
        return rep.finish();
    }
    let cap = Some(Duration::from_secs(if thorough { 1500 } else { 40 }));

    // (b1) all byte strings of length <= k
    let k = if thorough { 3 } else { 2 };
    let n = bytes_upto_count(k);
    let (st, capped) = par_range(n, 4096, cap, || (), |_, st, i| check_decode(st, &bytes_upto_get(i)));
    rep.add_sub("decode/all-bytes", &format!("every byte string of length 0..{}", k), n, true, capped, st);

    // (b2) CLASS^4 (quick) / CLASS^4 and prefix alphabet strings
    let n = strings_upto_count(CLASS.len(), if thorough { 4 } else { 3 });
    let kk = if thorough { 4 } else { 3 };
    let (st, capped) = par_range(n, 4096, cap, || (), |_, st, i| check_decode(st, &strings_upto_get(&CLASS, i)));
    rep.add_sub("decode/class-strings", &format!("every string of length 0..{} over the 31 byte-class representatives", kk), n, true, capped, st);

    // (b3) prefix alphabet: first byte a length prefix, then bytes from the boundary alphabet
    const PFX: [u8; 18] = [0x00, 0x01, 0x7f, 0x80, 0x81, 0xbf, 0xc0, 0xdf, 0xe0, 0xef, 0xf0, 0xf7, 0xf8, 0xfb, 0xfc, 0xfd, 0xfe, 0xff];
    const REST: [u8; 5] = [0x00, 0x01, 0x7f, 0x80, 0xff];
    let firsts: Vec<u8> = PFX.iter().copied().filter(|b| *b >= 0x80).collect();
    let maxrest = if thorough { 9 } else { 7 };
    let per = strings_upto_count(REST.len(), maxrest);
    let n = per * firsts.len() as u64;
    let (st, capped) = par_range(n, 1024, cap, || (), |_, st, i| {
        let f = firsts[(i / per) as usize];
        let mut v = vec![f];
        v.extend(strings_upto_get(&REST, i % per));
        check_decode(st, &v);
    });
    rep.add_sub(
        "decode/length-prefix-forms",
        &format!("first byte in {:02x?} x every string of length 0..{} over {:02x?}", firsts, maxrest, REST),
        n,
        true,
        capped,
        st,
    );
    let n = strings_upto_count(PFX.len(), if thorough { 5 } else { 4 });
    let pk = if thorough { 5 } else { 4 };
    let (st, capped) = par_range(n, 1024, cap, || (), |_, st, i| check_decode(st, &strings_upto_get(&PFX, i)));
    rep.add_sub("decode/prefix-alphabet", &format!("every string of length 0..{} over {:02x?}", pk, PFX), n, true, capped, st);

    // (a1) trees with <= 3 leaves over CLASS atoms of length 0..2 (quick: length 0..1 plus a few 2-byte)
    let mut alpha: Vec<T> = vec![T::nil()];
    for b in CLASS {
        alpha.push(T::a(&[b]));
    }
    for pair in [[0x00u8, 0x00], [0x00, 0x80], [0xff, 0xff], [0x80, 0x00], [b'a', b'b']] {
        alpha.push(T::a(&pair));
    }
    let leaves = 3;
    let sp = TreeSpace::new(alpha, leaves);
    let n = sp.total;
    let (st, capped) = par_range(n, 512, cap, || (), |_, st, i| check_roundtrip(st, &sp.get(i), true));
    rep.add_sub("roundtrip/small-trees", &format!("every tree with 1..{} leaves over {} atoms (nil, 31 class bytes, 5 two-byte atoms), plus every truncation of each encoding", leaves, sp.alpha.len()), n, true, capped, st);

    // (a2) length-class boundaries
    let mut lens: Vec<usize> = vec![0, 1, 2, 0x3e, 0x3f, 0x40, 0x41, 0xff, 0x100, 0x1ffe, 0x1fff, 0x2000, 0x2001, 0xffff, 0x10000, 0xffffe, 0xfffff, 0x100000, 0x100001, 0x123456];
    if thorough {
        lens.extend([0x1000000, 0x7ffffff, 0x8000000]);
    }
    let mut cases: Vec<T> = vec![];
    for &l in &lens {
        let at = T::A(pattern_atom(l));
        cases.push(at.clone());
        if l < 0x1000000 {
            cases.push(T::p(at.clone(), T::int(1)));
            cases.push(T::p(T::int(1), at.clone()));
            cases.push(T::list(&[T::int(5), at.clone(), T::a(b"zz")]));
            cases.push(T::p(at.clone(), at.clone()));
        }
    }
    // single bytes at the 0x7f/0x80 boundary
    for b in [0x00u8, 0x01, 0x7f, 0x80, 0x81, 0xff] {
        cases.push(T::a(&[b]));
    }
    let n = cases.len() as u64;
    let (st, capped) = par_range(n, 1, None, || (), |_, st, i| check_roundtrip(st, &cases[i as usize], true));
    rep.add_sub("roundtrip/length-classes", &format!("atoms of lengths {:x?} (position-dependent fill) alone, as left child, as right child, inside a list, paired with itself; truncations near both ends", lens), n, true, capped, st);

    // (a3) deep shapes: right / left spines and zig-zags of every depth 1..64 and at 100, 300, 1000, 5000, with
    // leaves cycling through short atoms and atoms that need a 2-byte length prefix (the decoder's operation stack
    // and the stream cursor after multi-byte prefixes, back to back)
    {
        let leafs: Vec<T> = vec![T::nil(), T::a(&[0]), T::a(&[0x80]), T::A(pattern_atom(0x40)), T::a(b"ab"), T::A(pattern_atom(0x3f)), T::A(pattern_atom(0x41))];
        let mut depths: Vec<usize> = (1..=64).collect();
        depths.extend([100, 300, 1000, 5000]);
        let mut shapes: Vec<T> = vec![];
        for d in &depths {
            for kind in 0..3 {
                let mut t = leafs[d % leafs.len()].clone();
                for i in 0..*d {
                    let l = leafs[(i + kind) % leafs.len()].clone();
                    t = match kind {
                        0 => T::p(l, t),
                        1 => T::p(t, l),
                        _ => {
                            if i % 2 == 0 {
                                T::p(l, t)
                            } else {
                                T::p(t, l)
                            }
                        }
                    };
                }
                shapes.push(t);
            }
        }
        let n = shapes.len() as u64;
        let shapes = std::sync::Arc::new(shapes);
        let sh = shapes.clone();
        let (st, capped) = par_range(n, 2, None, || (), move |_, st, i| {
            let t = sh[i as usize].clone();
            let mut local = Stats::new();
            // truncations at every offset only for the shallower shapes (quadratic otherwise)
            let trunc = t.bytes().len() < 600;
            let r = crate::par::with_big_stack(move || {
                check_roundtrip(&mut local, &t, trunc);
                local
            });
            st.merge(r);
        });
        rep.add_sub("roundtrip/deep-shapes", &format!("{} right / left spines and zig-zags of depth 1..64, 100, 300, 1000, 5000 whose leaves cycle through nil, 1-byte atoms and atoms of 0x3f / 0x40 / 0x41 bytes; truncations at every offset for encodings under 600 bytes", shapes.len()), n, true, capped, st);
    }

    // (c) single bit flips in the prefix bytes of valid encodings of the length-class atoms
    let mut flips: Vec<Vec<u8>> = vec![];
    for &l in lens.iter().filter(|l| **l <= 0x100001) {
        let enc = T::A(pattern_atom(l)).bytes();
        let plen = enc.len() - l;
        for byte in 0..plen.max(1).min(enc.len()) {
            for bit in 0..8 {
                let mut e = enc.clone();
                e[byte] ^= 1 << bit;
                flips.push(e.clone());
                // and with one trailing byte
                e.push(0x01);
                flips.push(e);
            }
        }
    }
    let n = flips.len() as u64;
    let (st, capped) = par_range(n, 4, None, || (), |_, st, i| check_decode(st, &flips[i as usize]));
    rep.add_sub("decode/prefix-bit-flips", "every single-bit flip in every length-prefix byte of the length-class atoms' encodings, with and without one trailing byte", n, true, capped, st);

    rep.finish()
}

// ---------------------------------------------------------------------------
// C20 lives in optab.rs
pub fn c20(thorough: bool, replay: Option<String>) -> i32 {
    crate::optab::c20(thorough, replay)
}
