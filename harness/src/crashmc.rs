//! C14 — front ends never crash: bounded exhaustive token soup / mutation
//! neighbourhoods / raw bytes, every entry point, process-isolated workers.
use crate::par::{catch, par_range_proc, run_worker, worker_args, Death};
use crate::report::{Report, Stats};
use crate::subject::*;
use crate::tree::*;
use serde_json::json;
use std::collections::HashMap;
use std::rc::Rc;
use std::time::Duration;

use chialisp::classic::clvm::__type_compatibility__::{Bytes, BytesFromType, Stream};
use chialisp::classic::clvm::serialize::{sexp_from_stream, SimpleCreateCLVMObject};
use chialisp::classic::clvm_tools::binutils;
use chialisp::classic::clvm_tools::stages::stage_0::{DefaultProgramRunner, TRunProgram};
use chialisp::compiler::compiler::{DefaultCompilerOpts, ADVANCED_MACROS, STANDARD_MACROS};
use chialisp::compiler::comptypes::{CompileErr, CompilerOpts};
use chialisp::compiler::dialect::KNOWN_DIALECTS;
use chialisp::compiler::frontend::frontend;
use chialisp::compiler::preprocessor::gather_dependencies;
use chialisp::compiler::repl::Repl;
use chialisp::compiler::sexp::parse_sexp;
use chialisp::compiler::srcloc::Srcloc;
use chialisp::compiler::usecheck::check_parameters_used_compileform;
use clvmr::allocator::Allocator;

const INPUT_NAME: &str = "*verif*";
pub const PER_CASE_MS: u64 = 10_000;

#[derive(Debug)]
enum EO {
    Ok,
    Err(Option<Srcloc>, String),
}

fn search_paths() -> Vec<String> {
    crate::subject::repo_search_paths()
}

fn opts_for(name: &str, extra_dir: Option<&str>) -> Rc<dyn CompilerOpts> {
    let o: Rc<dyn CompilerOpts> = Rc::new(DefaultCompilerOpts::new(name));
    let mut sp = search_paths();
    if let Some(d) = extra_dir {
        sp.insert(0, d.to_string());
    }
    o.set_search_paths(&sp)
}

fn cerr(e: CompileErr) -> EO {
    EO::Err(Some(e.0), e.1)
}

type Entry = (&'static str, fn(&[u8], Option<&str>) -> EO);

fn e_compile_lib(t: &[u8], dir: Option<&str>) -> EO {
    let text = String::from_utf8_lossy(t).to_string();
    let mut a = Allocator::new();
    let mut syms = HashMap::new();
    let opts = opts_for(INPUT_NAME, dir);
    match chialisp::classic::clvm_tools::clvmc::compile_clvm_text(&mut a, opts.clone(), &mut syms, &text, INPUT_NAME, false) {
        Ok(_) => EO::Ok,
        Err(chialisp::classic::clvm_tools::clvmc::CompileError::Modern(l, m)) => EO::Err(Some(l), m),
        Err(e) => EO::Err(None, e.format(&a, opts)),
    }
}

fn compile_as(t: &[u8], dir: Option<&str>, dialect: &str, optimize: bool) -> EO {
    let text = String::from_utf8_lossy(t).to_string();
    let d = KNOWN_DIALECTS.get(dialect).unwrap().accepted.clone();
    let mut a = Allocator::new();
    let runner: Rc<dyn TRunProgram> = Rc::new(DefaultProgramRunner::new());
    let stepping = d.stepping.unwrap_or(21);
    let opts = opts_for(INPUT_NAME, dir).set_dialect(d).set_optimize(optimize || stepping > 22).set_frontend_opt(stepping == 22);
    let mut syms = HashMap::new();
    match chialisp::compiler::compiler::compile_file(&mut a, runner, opts, &text, &mut syms) {
        Ok(_) => EO::Ok,
        Err(e) => cerr(e),
    }
}
fn e_compile_cl21(t: &[u8], d: Option<&str>) -> EO {
    compile_as(t, d, "*standard-cl-21*", false)
}
fn e_compile_strict21(t: &[u8], d: Option<&str>) -> EO {
    compile_as(t, d, "*strict-cl-21*", false)
}
fn e_compile_cl22(t: &[u8], d: Option<&str>) -> EO {
    compile_as(t, d, "*standard-cl-22*", false)
}
fn e_compile_cl23(t: &[u8], d: Option<&str>) -> EO {
    compile_as(t, d, "*standard-cl-23*", true)
}
fn e_compile_cl24(t: &[u8], d: Option<&str>) -> EO {
    compile_as(t, d, "*standard-cl-24*", true)
}

fn e_assemble(t: &[u8], _d: Option<&str>) -> EO {
    let text = String::from_utf8_lossy(t).to_string();
    let mut a = Allocator::new();
    match binutils::assemble(&mut a, &text) {
        Ok(n) => {
            // and disassemble what was assembled, in every version
            for v in 0..3 {
                let _ = binutils::disassemble(&a, n, Some(v));
            }
            EO::Ok
        }
        Err(e) => EO::Err(None, format!("{}", e)),
    }
}

fn e_brun(t: &[u8], _d: Option<&str>) -> EO {
    let text = String::from_utf8_lossy(t).to_string();
    let mut a = Allocator::new();
    match binutils::assemble(&mut a, &text) {
        Ok(n) => {
            use chialisp::classic::clvm_tools::stages::stage_0::RunProgramOption;
            match DefaultProgramRunner::new().run_program(&mut a, n, clvmr::allocator::NodePtr::NIL, Some(RunProgramOption { max_cost: Some(50_000_000), pre_eval_f: None, strict: true, operators_version: 2 })) {
                Ok(_) => EO::Ok,
                Err(e) => EO::Err(None, format!("{}", e)),
            }
        }
        Err(e) => EO::Err(None, format!("{}", e)),
    }
}

fn e_deserialize(t: &[u8], _d: Option<&str>) -> EO {
    let mut a = Allocator::new();
    let mut s = Stream::new(Some(Bytes::new(Some(BytesFromType::Raw(t.to_vec())))));
    match sexp_from_stream(&mut a, &mut s, Box::new(SimpleCreateCLVMObject {})) {
        Ok(r) => {
            let _ = binutils::disassemble(&a, r.1, None);
            EO::Ok
        }
        Err(e) => EO::Err(None, format!("{}", e)),
    }
}

fn e_hex_to_modern(t: &[u8], _d: Option<&str>) -> EO {
    let text = String::from_utf8_lossy(t).to_string();
    let mut a = Allocator::new();
    match chialisp::compiler::cldb::hex_to_modern_sexp(&mut a, &HashMap::new(), Srcloc::start(INPUT_NAME), &text) {
        Ok(_) => EO::Ok,
        Err(e) => EO::Err(None, format!("{}", e)),
    }
}

fn e_cldb(t: &[u8], _d: Option<&str>) -> EO {
    match parse_sexp(Srcloc::start(INPUT_NAME), t.iter().copied()) {
        Ok(forms) if !forms.is_empty() => {
            let env = Rc::new(chialisp::compiler::sexp::SExp::Nil(Srcloc::start("*args*")));
            let tr = crate::dbgmc::run_cldb_bounded(forms[0].clone(), env, 3000);
            if let Some(p) = tr {
                panic!("{}", p);
            }
            EO::Ok
        }
        Ok(_) => EO::Ok,
        Err((l, m)) => EO::Err(Some(l), m),
    }
}

fn e_dependencies(t: &[u8], d: Option<&str>) -> EO {
    let text = String::from_utf8_lossy(t).to_string();
    match gather_dependencies(opts_for(INPUT_NAME, d), INPUT_NAME, &text) {
        Ok(_) => EO::Ok,
        Err(e) => cerr(e),
    }
}

fn e_usecheck(t: &[u8], d: Option<&str>) -> EO {
    match parse_sexp(Srcloc::start(INPUT_NAME), t.iter().copied()) {
        Ok(forms) => {
            let opts = opts_for(INPUT_NAME, d);
            match frontend(opts.clone(), &forms) {
                Ok(cf) => match check_parameters_used_compileform(opts, Rc::new(cf)) {
                    Ok(_) => EO::Ok,
                    Err(e) => cerr(e),
                },
                Err(e) => cerr(e),
            }
        }
        Err((l, m)) => EO::Err(Some(l), m),
    }
}

fn e_preprocess(t: &[u8], d: Option<&str>) -> EO {
    match parse_sexp(Srcloc::start(INPUT_NAME), t.iter().copied()) {
        Ok(forms) if !forms.is_empty() => {
            let mut inc = vec![];
            match chialisp::compiler::preprocessor::preprocess(opts_for(INPUT_NAME, d), &mut inc, forms[0].clone()) {
                Ok(_) => EO::Ok,
                Err(e) => cerr(e),
            }
        }
        Ok(_) => EO::Ok,
        Err((l, m)) => EO::Err(Some(l), m),
    }
}

fn e_repl(t: &[u8], _d: Option<&str>) -> EO {
    // the text is entered line by line into a fresh REPL
    let text = String::from_utf8_lossy(t).to_string();
    let mut a = Allocator::new();
    let runner: Rc<dyn TRunProgram> = Rc::new(DefaultProgramRunner::new());
    let opts: Rc<dyn CompilerOpts> = Rc::new(DefaultCompilerOpts::new("*repl*"));
    let mut repl = Repl::new(opts, runner);
    repl.set_stack_limit(Some(200));
    let mut last = EO::Ok;
    for line in text.split('\n').take(4) {
        match repl.process_line(&mut a, line.to_string()) {
            Ok(_) => {}
            Err(e) => last = cerr(e),
        }
    }
    last
}

const TEXT_ENTRIES: &[Entry] = &[
    ("compile-library-entry", e_compile_lib),
    ("compile-cl21", e_compile_cl21),
    ("compile-strict-cl21", e_compile_strict21),
    ("compile-cl22", e_compile_cl22),
    ("compile-cl23", e_compile_cl23),
    ("compile-cl24", e_compile_cl24),
    ("assemble+disassemble", e_assemble),
    ("brun", e_brun),
    ("cldb", e_cldb),
    ("dependencies", e_dependencies),
    ("usecheck", e_usecheck),
    ("preprocess", e_preprocess),
    ("repl", e_repl),
];
const LIGHT_ENTRIES: &[Entry] = &[("assemble+disassemble", e_assemble), ("cldb", e_cldb), ("repl", e_repl), ("preprocess", e_preprocess)];
const BYTE_ENTRIES: &[Entry] = &[("deserialize+disassemble", e_deserialize), ("hex-to-modern", e_hex_to_modern), ("assemble+disassemble", e_assemble), ("compile-library-entry", e_compile_lib), ("repl", e_repl)];

fn pseudo_text(name: &str) -> Option<String> {
    if name == "*macros*" {
        // either stock macro set may be the one named
        return Some(format!("{}\n{}", STANDARD_MACROS.as_str(), ADVANCED_MACROS.as_str()));
    }
    KNOWN_DIALECTS.get(name).map(|d| d.content.clone())
}

fn location_ok(text: &[u8], l: &Srcloc, inc_dir: Option<&str>) -> Result<(), String> {
    let f = l.file.as_str();
    if f == INPUT_NAME || f == "*repl*" {
        if crate::parsemc::location_in_text(text, l, f) {
            return Ok(());
        }
        return Err(format!("location {} is outside the input text ({} bytes)", l, text.len()));
    }
    if f.starts_with('*') && f.ends_with('*') {
        if let Some(t) = pseudo_text(f) {
            // for *macros* two texts are candidates: accept if in bounds of the longer one line-wise
            let lines: Vec<&str> = t.lines().collect();
            if l.line >= 1 && l.line <= lines.len() + 1 {
                return Ok(());
            }
            return Err(format!("location {} is outside the built-in text {}", l, f));
        }
        return Ok(()); // other built-in pseudo-files (*prims*, *sym*, ...) have no text to check against
    }
    // a real file: must be one the search path can reach
    match std::fs::read(f) {
        Ok(content) => {
            if crate::parsemc::location_in_text(&content, l, f) {
                Ok(())
            } else {
                Err(format!("location {} is outside the file it names ({} bytes)", l, content.len()))
            }
        }
        Err(_) => {
            // include files are named as written in the (include ...) form: resolve through the search path
            let mut dirs = search_paths();
            if let Some(d) = inc_dir {
                dirs.insert(0, d.to_string());
            }
            for d in dirs {
                if let Ok(content) = std::fs::read(format!("{}/{}", d, f)) {
                    return if crate::parsemc::location_in_text(&content, l, f) { Ok(()) } else { Err(format!("location {} is outside the include file it names ({} bytes)", l, content.len())) };
                }
            }
            Err(format!("location names {:?}, which is neither the input, an include file reachable through the search path nor a built-in pseudo-file", f))
        }
    }
}

fn run_case(st: &mut Stats, text: &[u8], entries: &[Entry], inc_dir: Option<&str>, sub: &str, located: bool) {
    for (name, f) in entries {
        st.eval();
        let tv = text.to_vec();
        let dir = inc_dir.map(|s| s.to_string());
        let ff = *f;
        let r = catch(move || ff(&tv, dir.as_deref()));
        let replay = json!({"kind": "c14", "entry": name, "text_hex": hex::encode(text), "sub": sub});
        match r {
            Err(p) => {
                st.outcome(&format!("{}:PANIC", name));
                // signature: the panic site (file:line), which identifies the call site whatever the input
                let site = p.rsplit(" @ ").next().unwrap_or("?").to_string();
                st.violation(&format!("panic@{}", site), format!("{} panics on {:?}: {}", name, String::from_utf8_lossy(text), p), text.len(), replay);
            }
            Ok(EO::Ok) => {
                st.outcome(&format!("{}:ok", name));
                st.nontrivial(&(name, text));
                if text.len() > 12 && text.len() < 120 {
                    st.sample(json!({"entry": name, "input": String::from_utf8_lossy(text), "outcome": "ok"}));
                }
            }
            Ok(EO::Err(l, m)) => {
                st.outcome(&format!("{}:error", name));
                st.nontrivial(&(name, "err", &m));
                if text.len() > 12 && text.len() < 120 && name.starts_with("compile") {
                    st.sample(json!({"entry": name, "input": String::from_utf8_lossy(text), "outcome": format!("error at {}: {}", l.as_ref().map(|l| l.to_string()).unwrap_or_default(), m)}));
                }
                if let (true, Some(l)) = (located && name.starts_with("compile") || *name == "dependencies" || *name == "usecheck" || *name == "preprocess", l) {
                    match location_ok(text, &l, inc_dir) {
                        Ok(()) => st.count("located-errors-in-bounds", 1),
                        Err(why) => st.violation(&format!("error-location/{}", if l.file.starts_with('*') { l.file.to_string() } else { "file".to_string() }), format!("{} on {:?}: error {:?}: {}", name, String::from_utf8_lossy(text), m, why), text.len(), replay),
                    }
                }
            }
        }
    }
}

// ---- input spaces

const SOUP: [&str; 24] = ["(", ")", ".", "mod", "defun", "defun-inline", "defmacro", "defconstant", "include", "let", "assign", "lambda", "&rest", "@", "q", "qq", "unquote", "X", "1", "\"s\"", "0x10", ";c\n", "#(", "if"];

/// indices into SOUP of the tokens the reader / assembler distinguish: ( ) . mod &rest @ q X 1 "s" 0x10 ;c #( if
const SOUP_READER: [usize; 14] = [0, 1, 2, 3, 12, 13, 14, 17, 18, 19, 20, 21, 22, 23];

fn soup_text(i: u64) -> Vec<u8> {
    let alpha: Vec<u8> = (0..SOUP.len() as u8).collect();
    let idx = strings_upto_get(&alpha, i);
    let mut s = String::new();
    for k in idx {
        s.push_str(SOUP[k as usize]);
        s.push(' ');
    }
    s.into_bytes()
}

pub fn seeds() -> Vec<(String, String)> {
    let mut v: Vec<(String, String)> = vec![];
    let hand = [
        "(mod (A B) (+ A B))",
        "(mod (A) (include *standard-cl-21*) (defun f (X) (if X (+ 1 (f (r X))) 0)) (f A))",
        "(mod (A) (include *standard-cl-21*) (defun-inline g (X Y) (c X Y)) (let ((Z (g A 1))) (list Z A)))",
        "(mod (A B) (include *strict-cl-21*) (defconstant K 3) (let* ((X (+ A K)) (Y (* X B))) (list X Y)))",
        "(mod (A) (include *standard-cl-22*) (defmacro M (P) (qq (c (unquote P) ()))) (M A))",
        "(mod (A B) (include *standard-cl-23*) (assign (X . Y) (c A B) Z (+ X 1) (list X Y Z)))",
        "(mod (A) (include *standard-cl-23.1*) (defun F (X &rest R) (c X R)) (F A &rest (list 1 2)))",
        "(mod (A B) (include *standard-cl-24*) (defun map (F L) (if L (c (a F (list (f L))) (map F (r L))) ())) (map (lambda ((& A) X) (+ A X)) B))",
        "(mod ((@ W (A B)) . C) (include *standard-cl-21*) (defconst Q (sha256 1 2)) (list W A B C Q \"str\" 0x00ff 'x'))",
        "(mod (A) (include *standard-cl-24*) (defmac pick (X) (if (symbol? X) (qq (f (unquote X))) X)) (embed-file hello bin a-binary-file-called-hello.dat) (pick A))",
        "(mod (A) (include condition_codes.clvm) (defun-inline id (X) X) (id (list CREATE_COIN A)))",
        "(a (q 2 2 (c 2 (c 5 ()))) (c (q 16 5 (q . 1)) 1))",
        "(mod X (defun sq (N) (* N N)) (mod (Y) (sq Y)))",
    ];
    for (i, h) in hand.iter().enumerate() {
        v.push((format!("hand{}", i), h.to_string()));
    }
    v
}

pub fn shipped_seeds(max_bytes: usize, limit: usize) -> Vec<(String, String)> {
    let mut out = vec![];
    let mut stack = vec![std::path::PathBuf::from(format!("{}/resources/tests", crate::subject::repo_root()))];
    let mut files = vec![];
    while let Some(d) = stack.pop() {
        if let Ok(rd) = std::fs::read_dir(&d) {
            for e in rd.flatten() {
                let p = e.path();
                if p.is_dir() {
                    stack.push(p);
                } else if let Some(ext) = p.extension().and_then(|e| e.to_str()) {
                    if ["clsp", "clvm", "clinc", "clib", "cl"].contains(&ext) {
                        files.push(p);
                    }
                }
            }
        }
    }
    files.sort();
    for p in files {
        if let Ok(t) = std::fs::read_to_string(&p) {
            if t.len() <= max_bytes && !t.is_empty() {
                out.push((p.to_string_lossy().to_string(), t));
            }
        }
        if out.len() >= limit {
            break;
        }
    }
    out
}

/// token spans of a text (byte ranges), by a simple independent lexer
fn token_spans(t: &[u8]) -> Vec<(usize, usize)> {
    let mut v = vec![];
    let mut i = 0;
    while i < t.len() {
        let c = t[i];
        if c.is_ascii_whitespace() {
            i += 1;
        } else if c == b';' {
            let s = i;
            while i < t.len() && t[i] != b'\n' {
                i += 1;
            }
            v.push((s, i));
        } else if c == b'(' || c == b')' {
            v.push((i, i + 1));
            i += 1;
        } else if c == b'"' || c == b'\'' {
            let s = i;
            i += 1;
            while i < t.len() && t[i] != c {
                if t[i] == b'\\' {
                    i += 1;
                }
                i += 1;
            }
            i = (i + 1).min(t.len());
            v.push((s, i));
        } else {
            let s = i;
            while i < t.len() && !t[i].is_ascii_whitespace() && t[i] != b'(' && t[i] != b')' {
                i += 1;
            }
            v.push((s, i));
        }
    }
    v
}

/// All single-token deletions, duplications, adjacent swaps and all truncations of a seed.
fn mutants_of(t: &[u8], trunc_step: usize) -> Vec<Vec<u8>> {
    let toks = token_spans(t);
    let mut out = vec![t.to_vec()];
    for (k, (s, e)) in toks.iter().enumerate() {
        let mut d = t[..*s].to_vec();
        d.extend_from_slice(&t[*e..]);
        out.push(d);
        let mut dup = t[..*e].to_vec();
        dup.push(b' ');
        dup.extend_from_slice(&t[*s..]);
        out.push(dup);
        if k + 1 < toks.len() {
            let (s2, e2) = toks[k + 1];
            let mut sw = t[..*s].to_vec();
            sw.extend_from_slice(&t[s2..e2]);
            sw.extend_from_slice(&t[*e..s2]);
            sw.extend_from_slice(&t[*s..*e]);
            sw.extend_from_slice(&t[e2..]);
            out.push(sw);
        }
    }
    let mut k = 0;
    while k < t.len() {
        out.push(t[..k].to_vec());
        k += trunc_step;
    }
    out
}

/// compile-time function grid: every defmac extension function x every argument list of length 0..3 over a boundary alphabet
const EXT_FUNS: [&str; 10] = ["string?", "number?", "symbol?", "string->symbol", "symbol->string", "string->number", "number->string", "string-append", "string-length", "substring"];
const EXT_ARGS: [&str; 11] = ["\"hello\"", "\"\"", "0", "1", "5", "6", "-1", "(q . sym)", "(q . (1 2))", "()", "99999999999999999999"];

/// the quick tier uses 7 of the 11 argument values
const EXT_ARGS_QUICK: [u8; 7] = [0, 1, 2, 3, 5, 7, 9];

fn ext_grid_n(thorough: bool) -> u64 {
    EXT_FUNS.len() as u64 * strings_upto_count(if thorough { EXT_ARGS.len() } else { EXT_ARGS_QUICK.len() }, 3)
}

fn ext_grid_text(i: u64, thorough: bool) -> Vec<u8> {
    let alpha: Vec<u8> = if thorough { (0..EXT_ARGS.len() as u8).collect() } else { EXT_ARGS_QUICK.to_vec() };
    let per = strings_upto_count(alpha.len(), 3);
    let f = EXT_FUNS[(i / per) as usize % EXT_FUNS.len()];
    let idx = strings_upto_get(&alpha, i % per);
    let args: Vec<&str> = idx.iter().map(|k| EXT_ARGS[*k as usize]).collect();
    format!("(mod (X) (include *standard-cl-23*) (defmac M () ({}{}{})) (c (M) X))", f, if args.is_empty() { "" } else { " " }, args.join(" ")).into_bytes()
}

struct Space {
    name: String,
    bound: String,
    n: u64,
    chunk: u64,
}

/// Every single-token replacement of a seed by each token of a small "wrong kind" alphabet.
fn replacements_of(t: &[u8]) -> Vec<Vec<u8>> {
    let toks = token_spans(t);
    let alphabet: [&[u8]; 6] = [b"()", b"1", b"\"s\"", b"X", b"(a b)", b"0x1"];
    let mut out = vec![];
    for (s, e) in toks.iter() {
        if t[*s] == b'(' || t[*s] == b')' {
            continue;
        }
        for r in alphabet {
            if &t[*s..*e] == r {
                continue;
            }
            let mut m = t[..*s].to_vec();
            m.extend_from_slice(r);
            m.extend_from_slice(&t[*e..]);
            out.push(m);
        }
    }
    out
}

struct Plan {
    thorough: bool,
    ill_scoped: Vec<Vec<u8>>,
    seed_replacements: Vec<Vec<u8>>,
    seed_mutants: Vec<Vec<u8>>,
    shipped_mutants: Vec<Vec<u8>>,
    include_variants: Vec<Vec<u8>>,
}

impl Plan {
    fn new(thorough: bool) -> Plan {
        let mut seed_mutants = vec![];
        let mut seed_replacements = vec![];
        for (_, s) in seeds() {
            seed_mutants.extend(mutants_of(s.as_bytes(), 1));
            seed_replacements.extend(replacements_of(s.as_bytes()));
        }
        let mut shipped_mutants = vec![];
        for (_, s) in shipped_seeds(if thorough { 6000 } else { 600 }, if thorough { 120 } else { 8 }) {
            shipped_mutants.extend(mutants_of(s.as_bytes(), if thorough { 1 } else { 7 }));
        }
        let mut include_variants: Vec<Vec<u8>> = vec![vec![], b" ".to_vec(), b"()".to_vec(), b"(".to_vec(), b")".to_vec(), b"(defun f (X) X)".to_vec(), b"((defun f (X) X))".to_vec(), b"(defconstant K 1) (defconstant L 2)".to_vec(), b"(\n(defmacro M (A) (qq (f (unquote A))))\n)".to_vec()];
        for i in 0..strings_upto_count(SOUP.len(), 2) {
            include_variants.push(soup_text(i));
        }
        for m in mutants_of(b"(\n  (defconstant CREATE 51)\n  (defun-inline dbl (X) (* 2 X))\n  (defmacro twice (X) (qq (c (unquote X) (unquote X))))\n)", 1) {
            include_variants.push(m);
        }
        Plan { thorough, ill_scoped: crate::scopemc::ill_scoped_texts(thorough).into_iter().map(|t| t.into_bytes()).collect(), seed_replacements, seed_mutants, shipped_mutants, include_variants }
    }
    fn spaces(&self) -> Vec<Space> {
        let t = self.thorough;
        vec![
            Space { name: "soup-all-entries".into(), bound: format!("every sequence of 0..{} tokens over the 24-token alphabet, all 13 text entry points", if t { 4 } else { 3 }), n: strings_upto_count(SOUP.len(), if t { 4 } else { 3 }), chunk: 200 },
            Space { name: "soup-light-entries".into(), bound: if t { "every sequence of exactly 5 tokens over the 24-token alphabet, entry points assemble/cldb/repl/preprocess".to_string() } else { "every sequence of exactly 4 tokens over the 14 reader-level tokens ( ) . mod &rest @ q X 1 \"s\" 0x10 ;c #( if, entry points assemble/cldb/preprocess".to_string() }, n: if t { (SOUP.len() as u64).pow(5) } else { (SOUP_READER.len() as u64).pow(4) }, chunk: 3000 },
            Space { name: "seed-mutations".into(), bound: "13 hand-written seed programs (one per construct family and dialect): the seed, every single-token deletion, duplication and adjacent swap, every truncation at every byte offset; all 13 text entry points".into(), n: self.seed_mutants.len() as u64, chunk: 25 },
            Space { name: "ill-scoped-programs".into(), bound: "C10's exhaustively enumerated inline-cycle programs (every back edge of chains of <= 3 (4) inlines, plain / in a &rest tail / nested in a &rest tail) and assign-cycle / duplicate-binding programs, in cl21, strict-cl21 and cl23 (thorough: all sigils): library compile entry, unused-argument check, preprocessing, dependency listing, REPL".into(), n: self.ill_scoped.len() as u64, chunk: 40 },
            Space { name: "seed-replacements".into(), bound: "the same 13 seeds: every non-parenthesis token replaced by each of () 1 \"s\" X (a b) 0x1 (a form or value of the wrong kind in every position); library compile entry (dialect from the sigil), dependency listing, preprocessing; thorough: all text entry points".into(), n: self.seed_replacements.len() as u64, chunk: 60 },
            Space { name: "shipped-mutations".into(), bound: format!("sources under resources/tests (up to {} bytes, first {} by path): same token mutations, truncation at every {} byte; all entry points", if t { 6000 } else { 600 }, if t { 120 } else { 8 }, if t { "1st" } else { "7th" }), n: self.shipped_mutants.len() as u64, chunk: 25 },
            Space { name: "raw-bytes".into(), bound: format!("every byte string of length 0..2 and every string of length 3{} over the 31 byte-class representatives; deserialise, hex reader, assemble for all; classic compile and repl for the shortest strings (thorough: for all up to 2 bytes, repl for all)", if t { "..4" } else { "" }), n: bytes_upto_count(2) + (CLASS.len() as u64).pow(3) + if t { (CLASS.len() as u64).pow(4) } else { 0 }, chunk: 4000 },
            Space { name: "compile-time-functions".into(), bound: "every defmac extension function (string? number? symbol? string->symbol symbol->string string->number number->string string-append string-length substring) applied inside a defmac body to every argument list of length 0..3 over boundary values (quick 7: a string, the empty string, 0, 1, 6, a symbol, nil; thorough 11: also 5, -1, a list, a 20-digit number); compiled as cl23 (thorough: and strict-cl21)".into(), n: ext_grid_n(t), chunk: 250 },
            Space { name: "include-file-variants".into(), bound: "a fixed host program that includes one file, with that file's contents ranging over: empty, blank, unbalanced, every soup of <= 2 tokens, and all token mutations/truncations of a small include file; compile (2 dialects), dependencies, preprocess".into(), n: self.include_variants.len() as u64, chunk: 60 },
        ]
    }
    fn text_of(&self, sub: &str, i: u64) -> Vec<u8> {
        match sub {
            "seed-mutations" => self.seed_mutants[i as usize].clone(),
            "seed-replacements" => self.seed_replacements[i as usize].clone(),
            "ill-scoped-programs" => self.ill_scoped[i as usize].clone(),
            "shipped-mutations" => self.shipped_mutants[i as usize].clone(),
            "include-file-variants" => self.include_variants[i as usize].clone(),
            "soup-all-entries" => soup_text(i),
            "soup-light-entries" => {
                if self.thorough {
                    soup_text(strings_upto_count(SOUP.len(), 4) + i)
                } else {
                    let mut j = i;
                    let mut s = String::new();
                    for _ in 0..4 {
                        s.push_str(SOUP[SOUP_READER[(j % SOUP_READER.len() as u64) as usize]]);
                        s.push(' ');
                        j /= SOUP_READER.len() as u64;
                    }
                    s.into_bytes()
                }
            }
            "raw-bytes" => self.raw_bytes(i),
            "compile-time-functions" => ext_grid_text(i, self.thorough),
            _ => vec![],
        }
    }
    fn raw_bytes(&self, i: u64) -> Vec<u8> {
        let n2 = bytes_upto_count(2);
        let n3 = (CLASS.len() as u64).pow(3);
        if i < n2 {
            bytes_upto_get(i)
        } else if i < n2 + n3 {
            strings_upto_get(&CLASS, strings_upto_count(CLASS.len(), 2) + (i - n2))
        } else {
            strings_upto_get(&CLASS, strings_upto_count(CLASS.len(), 3) + (i - n2 - n3))
        }
    }
    fn case(&self, sub: &str, st: &mut Stats, i: u64, tmp: &str) {
        match sub {
            "soup-all-entries" => {
                let t = soup_text(i);
                // the classic compiler (library entry without a sigil) costs ~10 ms per text: quick gives it the <= 2 token soups only
                let ntok = t.iter().filter(|c| **c == b' ').count();
                if self.thorough || ntok <= 2 {
                    run_case(st, &t, TEXT_ENTRIES, None, sub, true)
                } else {
                    run_case(st, &t, &[("compile-cl21", e_compile_cl21), ("compile-cl24", e_compile_cl24), ("usecheck", e_usecheck), ("dependencies", e_dependencies)], None, sub, true)
                }
            }
            "soup-light-entries" => {
                if self.thorough {
                    let base = strings_upto_count(SOUP.len(), 4);
                    run_case(st, &soup_text(base + i), LIGHT_ENTRIES, None, sub, true)
                } else {
                    // exactly 4 tokens over the 14 reader-level tokens (the keyword tokens matter to the compiler entries,
                    // which see every sequence of <= 3 tokens over the full alphabet)
                    let mut j = i;
                    let mut s = String::new();
                    for _ in 0..4 {
                        s.push_str(SOUP[SOUP_READER[(j % SOUP_READER.len() as u64) as usize]]);
                        s.push(' ');
                        j /= SOUP_READER.len() as u64;
                    }
                    run_case(st, s.as_bytes(), &[("assemble+disassemble", e_assemble), ("cldb", e_cldb), ("preprocess", e_preprocess)], None, sub, true)
                }
            }
            "ill-scoped-programs" => {
                let t = &self.ill_scoped[i as usize];
                run_case(st, t, &[("compile-library-entry", e_compile_lib), ("usecheck", e_usecheck), ("preprocess", e_preprocess), ("dependencies", e_dependencies), ("repl", e_repl)], None, sub, true)
            }
            "seed-replacements" => {
                let t = &self.seed_replacements[i as usize];
                if self.thorough {
                    let entries: Vec<Entry> = TEXT_ENTRIES.iter().filter(|e| e.0 != "usecheck" || !calls_a_function_twice(t)).cloned().collect();
                    run_case(st, t, &entries, None, sub, true)
                } else {
                    run_case(st, t, &[("compile-library-entry", e_compile_lib), ("dependencies", e_dependencies), ("preprocess", e_preprocess)], None, sub, true)
                }
            }
            "seed-mutations" | "shipped-mutations" => {
                let t = if sub == "seed-mutations" { &self.seed_mutants[i as usize] } else { &self.shipped_mutants[i as usize] };
                if !self.thorough && calls_a_function_twice(t) {
                    // known finding F26 (usecheck does not terminate on some ill-formed recursive programs) costs the full
                    // wall limit per case: the quick tier leaves usecheck out for this class, the thorough tier runs it
                    let entries: Vec<Entry> = TEXT_ENTRIES.iter().filter(|e| e.0 != "usecheck").cloned().collect();
                    st.outcome("usecheck:skipped(quick tier, recursive-program class)");
                    run_case(st, t, &entries, None, sub, true)
                } else {
                    run_case(st, t, TEXT_ENTRIES, None, sub, true)
                }
            }
            "raw-bytes" => {
                let bytes = self.raw_bytes(i);
                // the (slow) classic compiler sees the short strings only
                let entries: &[Entry] = if bytes.len() <= if self.thorough { 2 } else { 1 } { BYTE_ENTRIES } else { &BYTE_ENTRIES[..3] };
                run_case(st, &bytes, entries, None, sub, false);
                if bytes.len() > 2 && self.thorough {
                    run_case(st, &bytes, &[("repl", e_repl)], None, sub, false);
                }
            }
            "compile-time-functions" => {
                let t = ext_grid_text(i, self.thorough);
                run_case(st, &t, &[("compile-cl23", e_compile_cl23)], None, sub, true);
                if self.thorough {
                    let t2 = String::from_utf8_lossy(&t).replace("*standard-cl-23*", "*strict-cl-21*").into_bytes();
                    run_case(st, &t2, &[("compile-strict-cl21", e_compile_strict21)], None, sub, true);
                }
            }
            "include-file-variants" => {
                let path = format!("{}/inc.clinc", tmp);
                std::fs::write(&path, &self.include_variants[i as usize]).expect("write include file");
                for host in ["(mod (X) (include *standard-cl-21*) (include inc.clinc) (c X ()))", "(mod (X) (include *standard-cl-24*) (include inc.clinc) (c X ()))", "(mod (X) (include inc.clinc) (c X ()))"] {
                    run_case(st, host.as_bytes(), &[("compile-library-entry", e_compile_lib), ("dependencies", e_dependencies), ("preprocess", e_preprocess), ("usecheck", e_usecheck)], Some(tmp), sub, true);
                }
            }
            _ => panic!("unknown sub-space {}", sub),
        }
    }
}

/// crude syntactic class: some defun'd name is called at two or more places (recursion or repeated use)
fn calls_a_function_twice(text: &[u8]) -> bool {
    let t = String::from_utf8_lossy(text).to_string();
    let toks: Vec<&str> = t.split(|c: char| c.is_whitespace() || c == '(' || c == ')').filter(|s| !s.is_empty()).collect();
    for w in toks.windows(2) {
        if w[0] == "defun" || w[0] == "defun-inline" {
            let name = w[1];
            let calls = t.matches(&format!("({} ", name)).count() + t.matches(&format!("({})", name)).count();
            if calls >= 2 {
                return true;
            }
        }
    }
    false
}

/// true if the entry point dies or exceeds the wall limit on this text when run alone in a subprocess
fn probe_entry(name: &str, text: &[u8]) -> bool {
    let dir = format!("/tmp/vmc-c14-probe-{}", std::process::id());
    let _ = std::fs::create_dir_all(&dir);
    let path = format!("{}/probe.json", dir);
    let body = json!({"replay": {"kind": "c14", "entry": name, "text_hex": hex::encode(text), "sub": "probe"}});
    std::fs::write(&path, body.to_string()).expect("write probe");
    let exe = std::env::current_exe().expect("exe");
    let mut child = match std::process::Command::new(exe).args(["C14", "--probe", &path]).stdout(std::process::Stdio::null()).stderr(std::process::Stdio::null()).spawn() {
        Ok(c) => c,
        Err(_) => return false,
    };
    let start = std::time::Instant::now();
    let res = loop {
        match child.try_wait() {
            Ok(Some(st)) => break !st.success(),
            Ok(None) => {
                // CPU-time limit (load-independent), with a wall-clock backstop
                let cpu = crate::par::proc_cpu_ms(child.id()).unwrap_or(0);
                if cpu > PER_CASE_MS + 2000 || start.elapsed() > Duration::from_millis(PER_CASE_MS * 30) {
                    let _ = child.kill();
                    let _ = child.wait();
                    break true;
                }
                std::thread::sleep(Duration::from_millis(20));
            }
            Err(_) => break false,
        }
    };
    let _ = std::fs::remove_dir_all(&dir);
    res
}

pub fn c14(thorough: bool, replay: Option<String>) -> i32 {
    let tier = if thorough { "thorough" } else { "quick" };
    let plan = Plan::new(thorough);
    if let Some(w) = worker_args() {
        let tmp = format!("/tmp/vmc-c14-{}", std::process::id());
        let _ = std::fs::create_dir_all(&tmp);
        let tmp2 = tmp.clone();
        let sub = w.sub.clone();
        // the worker exits the process when done; the temp dir is removed by the parent-side sweep below
        run_worker(w.lo, w.hi, PER_CASE_MS, move |st, i| plan.case(&sub, st, i, &tmp2));
    }
    {
        let a: Vec<String> = std::env::args().collect();
        if let Some(i) = a.iter().position(|x| x == "--show") {
            let sub = a[i + 1].clone();
            let idx: u64 = a[i + 2].parse().unwrap();
            let text = plan.text_of(&sub, idx);
            println!("{}", String::from_utf8_lossy(&text));
            return 0;
        }
    }
    {
        let a: Vec<String> = std::env::args().collect();
        if let Some(i) = a.iter().position(|x| x == "--probe") {
            let v: serde_json::Value = serde_json::from_str(&std::fs::read_to_string(&a[i + 1]).expect("read probe")).expect("json");
            let r = &v["replay"];
            let text = hex::decode(r["text_hex"].as_str().unwrap_or("")).unwrap_or_default();
            let name = r["entry"].as_str().unwrap_or("");
            let entries: Vec<Entry> = TEXT_ENTRIES.iter().chain(BYTE_ENTRIES.iter()).filter(|e| e.0 == name).take(1).cloned().collect();
            let mut st = Stats::new();
            run_case(&mut st, &text, &entries, None, "probe", false);
            return 0;
        }
    }
    let mut rep = Report::new("C14", tier, "exploration");
    rep.rule = "every input of the stated finite sets is given to every listed entry point inside an isolated worker process (512 MiB stack, 10 s CPU-time limit per case with a wall-clock backstop): a panic (caught, identified by its source site), a process abort / stack overflow (worker death, bisected to the single case) or a timeout is a violation; \
        every located error of the modern compiler must name the input, a readable include file or a built-in pseudo-file and lie inside that text. non-trivial = distinct (entry point, input) pairs that returned Ok, plus distinct (entry point, error message) pairs"
        .to_string();
    rep.assumptions = vec!["'never loops forever' is decided as: finishes within 10 s on this machine".to_string(), "parenthesis nesting of generated inputs is far below 200 by construction".to_string(), "the Python/wasm binding layers themselves are not exercised; their Rust entry points are".to_string()];
    if let Some(path) = replay {
        let v: serde_json::Value = serde_json::from_str(&std::fs::read_to_string(&path).expect("read replay")).expect("json");
        let r = &v["replay"];
        let text = hex::decode(r["text_hex"].as_str().unwrap_or("")).unwrap_or_default();
        let mut st = Stats::new();
        let name = r["entry"].as_str().unwrap_or("");
        let entries: Vec<Entry> = TEXT_ENTRIES.iter().chain(BYTE_ENTRIES.iter()).filter(|e| e.0 == name).take(1).cloned().collect();
        for _ in 0..2 {
            run_case(&mut st, &text, &entries, None, "replay", true);
        }
        rep.add_sub("replay", "one case (in-process)", 1, false, false, st);
        return rep.finish();
    }
    let cap = Some(Duration::from_secs(if thorough { 3000 } else { 50 }));
    for sp in plan.spaces() {
        let mut deaths = vec![];
        let (mut st, capped) = par_range_proc("C14", tier, &sp.name, sp.n, sp.chunk, cap, &mut deaths);
        for d in deaths {
            let (i, kind, status) = match d {
                Death::Hang(i) => (i, "hang", String::new()),
                Death::Crash(i, s) => (i, "abort", s),
            };
            let text = plan.text_of(&sp.name, i);
            // identify the responsible entry point by re-running each one alone, isolated
            let mut culprit = "unidentified".to_string();
            for (name, _) in TEXT_ENTRIES.iter().chain(BYTE_ENTRIES.iter()) {
                if probe_entry(name, &text) {
                    culprit = name.to_string();
                    break;
                }
            }
            if culprit == "unidentified" && !crate::par::death_reproduces("C14", tier, &sp.name, i) {
                // no entry point dies on this input when run alone, and neither does the whole case: a transient
                // of the machine (memory pressure, scheduling), not a behaviour of the code - never a verdict
                st.count("worker-death-not-reproduced(machinery, no verdict)", 1);
                continue;
            }
            let class = if String::from_utf8_lossy(&text).contains("(&") { "lambda-with-captures" } else { "other" };
            let sig = if culprit == "usecheck" && calls_a_function_twice(&text) { "nontermination/usecheck/recursive-program".to_string() } else { format!("{}/{}/{}", kind, culprit, class) };
            st.violation(
                &sig,
                format!("{} in entry point {} on case {} of {}: {:?} {}", kind, culprit, i, sp.name, String::from_utf8_lossy(&text), status),
                text.len(),
                json!({"kind": "c14", "entry": culprit, "text_hex": hex::encode(&text), "sub": sp.name}),
            );
        }
        rep.add_sub(&sp.name, &sp.bound, sp.n, true, capped, st);
    }
    // sweep worker temp dirs
    if let Ok(rd) = std::fs::read_dir("/tmp") {
        for e in rd.flatten() {
            if e.file_name().to_string_lossy().starts_with("vmc-c14-") {
                let _ = std::fs::remove_dir_all(e.path());
            }
        }
    }
    rep.finish()
}
