mod oracle;
mod par;
mod report;
mod tree;
mod valmc;
mod histmc;
mod sysmc;
mod entrymc;
mod replmc;
mod scopemc;
mod lang;
mod gen;
mod progmc;
mod crashmc;
mod parsemc;
mod dbgmc;
mod clvmmc;
mod conv;
mod optab;
mod subject;

fn main() {
    let args: Vec<String> = std::env::args().collect();
    if args.len() >= 2 && args[1] == "--c05-history" {
        histmc::history_main(args[2..].to_vec());
    }
    if args.len() >= 2 && args[1] == "--fs-subject" {
        sysmc::fs_subject_main(args[2..].to_vec());
    }
    if args.len() >= 2 && args[1] == "--cldb-entry" {
        entrymc::cldb_entry_main(args[2..].to_vec());
    }
    if args.len() < 2 {
        eprintln!("usage: vmc <Cxx> [--tier quick|thorough] [--replay file]");
        std::process::exit(2);
    }
    let id = args[1].to_uppercase();
    let mut tier = std::env::var("VERIF_TIER").unwrap_or_else(|_| "quick".to_string());
    let mut replay: Option<String> = None;
    let mut i = 2;
    while i < args.len() {
        match args[i].as_str() {
            "--tier" => {
                tier = args[i + 1].clone();
                i += 1;
            }
            "--replay" => {
                replay = Some(args[i + 1].clone());
                i += 1;
            }
            _ => {}
        }
        i += 1;
    }
    if tier != "quick" && tier != "thorough" {
        eprintln!("bad tier {}", tier);
        std::process::exit(2);
    }
    // Quiet the default panic printer: engines catch panics and report them as data.
    par::install_panic_hook();
    let thorough = tier == "thorough";
    let code = par::with_big_stack(move || match id.as_str() {
        "C01" => progmc::c01(thorough, replay),
        "C02" => progmc::c02(thorough, replay),
        "C03" => progmc::c03(thorough, replay),
        "C04" => clvmmc::c04(thorough, replay),
        "C05" => histmc::c05(thorough, replay),
        "C06" => clvmmc::c06(thorough, replay),
        "C07" => conv::c07(thorough, replay),
        "C08" => valmc::c08(thorough, replay),
        "C09" => conv::c09(thorough, replay),
        "C10" => scopemc::c10(thorough, replay),
        "C11" => entrymc::c11(thorough, replay),
        "C12" => dbgmc::c12(thorough, replay),
        "C13" => progmc::c13(thorough, replay),
        "C14" => crashmc::c14(thorough, replay),
        "C15" => parsemc::c15(thorough, replay),
        "C16" => replmc::c16(thorough, replay),
        "C17" => progmc::c17(thorough, replay),
        "C18" => entrymc::c18(thorough, replay),
        "C19" => sysmc::c19(thorough, replay),
        "C20" => valmc::c20(thorough, replay),
        _ => {
            eprintln!("no engine for {}", id);
            2
        }
    });
    std::process::exit(code);
}
