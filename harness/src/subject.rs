//! Thin wrappers around the repository's entry points (the subject under test).
//! Everything is executed under catch_unwind; a panic is an observable outcome.
use crate::oracle::Out;
use crate::par::catch;
use crate::tree::T;
use std::collections::HashMap;
use std::rc::Rc;

use chialisp::classic::clvm_tools::binutils;
use chialisp::classic::clvm_tools::clvmc::compile_clvm_text_maybe_opt;
use chialisp::classic::clvm_tools::stages::stage_0::{DefaultProgramRunner, TRunProgram};
use chialisp::compiler::clvm::{convert_from_clvm_rs, convert_to_clvm_rs, run, NewStyleIntConversion};
use chialisp::compiler::compiler::{compile_file, DefaultCompilerOpts};
use chialisp::compiler::comptypes::{CompileErr, CompilerOpts};
use chialisp::compiler::dialect::AcceptedDialect;
use chialisp::compiler::prims;
use chialisp::compiler::runtypes::RunFailure;
use chialisp::compiler::sexp::SExp;
use chialisp::compiler::srcloc::Srcloc;
use clvmr::allocator::Allocator;
use num_bigint::BigInt;

/// The repository checkout the harness was built against (`/repo` unless the driver was given VERIF_REPO).
pub fn repo_root() -> String {
    std::env::var("VERIF_REPO").ok().filter(|s| !s.is_empty()).unwrap_or_else(|| "/repo".to_string())
}

pub fn repo_search_paths() -> Vec<String> {
    let r = repo_root();
    ["resources/tests", "resources/tests/bridge-includes", "resources/tests/strict/includes", "resources/tests/lib"].iter().map(|d| format!("{}/{}", r, d)).collect()
}

pub fn loc() -> Srcloc {
    Srcloc::start("*verif*")
}

/// How atoms are spelled when a harness value is handed to the rich-SExp world.
#[derive(Clone, Copy, Debug, PartialEq, Eq)]
pub enum Spell {
    /// exactly what `convert_from_clvm_rs` produces in the current integer mode
    Convert,
    /// every atom as SExp::Atom(bytes) (nil as Nil)
    Atom,
    /// every atom as a hex QuotedString
    Hex,
    /// every atom as a double-quoted string
    Str,
    /// canonical integers as Integer, everything else Atom
    Int,
}

pub fn to_sexp(t: &T, sp: Spell) -> Rc<SExp> {
    match t {
        T::P(a, b) => Rc::new(SExp::Cons(loc(), to_sexp(a, sp), to_sexp(b, sp))),
        T::A(v) => {
            if v.is_empty() && sp != Spell::Hex && sp != Spell::Str {
                return Rc::new(SExp::Nil(loc()));
            }
            match sp {
                Spell::Convert => {
                    let mut a = Allocator::new();
                    let n = a.new_atom(v).unwrap();
                    convert_from_clvm_rs(&mut a, loc(), n).expect("convert_from_clvm_rs")
                }
                Spell::Atom => Rc::new(SExp::Atom(loc(), v.clone())),
                Spell::Hex => Rc::new(SExp::QuotedString(loc(), b'x', v.clone())),
                Spell::Str => Rc::new(SExp::QuotedString(loc(), b'"', v.clone())),
                Spell::Int => {
                    let n = BigInt::from_signed_bytes_be(v);
                    if crate::tree::int_bytes_big(&n) == *v {
                        Rc::new(SExp::Integer(loc(), n))
                    } else {
                        Rc::new(SExp::Atom(loc(), v.clone()))
                    }
                }
            }
        }
    }
}

/// The CLVM value a rich SExp denotes, via the repository's own converter
/// (this is what every tool emits), in the current integer mode.
pub fn from_sexp(s: Rc<SExp>) -> Result<T, String> {
    let mut a = Allocator::new();
    let n = convert_to_clvm_rs(&mut a, s).map_err(|e| format!("{}", e))?;
    Ok(T::from_node(&a, n))
}

fn run_failure_out(e: RunFailure) -> Out {
    match e {
        RunFailure::RunErr(_, s) => Out::Err(s),
        RunFailure::RunExn(_, s) => Out::Err(format!("throw {}", s)),
    }
}

/// The stepping evaluator (`compiler::clvm::run`) on a program/environment pair.
pub fn stepping_run_sexp(prog: Rc<SExp>, env: Rc<SExp>, limit: Option<usize>) -> Out {
    let r = catch(std::panic::AssertUnwindSafe(move || {
        let mut a = Allocator::new();
        let runner: Rc<dyn TRunProgram> = Rc::new(DefaultProgramRunner::new());
        match run(&mut a, runner, prims::prim_map(), prog, env, None, limit) {
            Ok(v) => match from_sexp(v) {
                Ok(t) => Out::Val(t),
                Err(e) => Out::Err(format!("unconvertible result: {}", e)),
            },
            Err(RunFailure::RunErr(_, s)) if s == "timeout" => Out::Limit,
            Err(e) => run_failure_out(e),
        }
    }));
    match r {
        Ok(o) => o,
        Err(p) => Out::Err(format!("PANIC: {}", p)),
    }
}

pub fn stepping_run(prog: &T, env: &T, sp: Spell, limit: Option<usize>) -> Out {
    stepping_run_sexp(to_sexp(prog, sp), to_sexp(env, sp), limit)
}

#[derive(Clone, Debug)]
pub struct Compiled {
    pub code: T,
    pub text: String,
    pub symbols: HashMap<String, String>,
}

#[derive(Clone, Debug)]
pub enum CErr {
    Err(String, String), // (location, message)
    Panic(String),
}
impl CErr {
    pub fn msg(&self) -> String {
        match self {
            CErr::Err(l, m) => format!("{}: {}", l, m),
            CErr::Panic(p) => format!("PANIC: {}", p),
        }
    }
    pub fn is_panic(&self) -> bool {
        matches!(self, CErr::Panic(_))
    }
}

#[derive(Clone, Debug, PartialEq, Eq, Hash)]
pub struct ModernOpts {
    pub optimize: bool,
    pub frontend_opt: bool,
    /// run the classic post-optimiser over the result (what `run -O` and the library entry do)
    pub post_opt: bool,
    pub search: Vec<String>,
    pub filename: String,
}

impl Default for ModernOpts {
    fn default() -> Self {
        ModernOpts { optimize: false, frontend_opt: false, post_opt: false, search: vec![], filename: "*verif*".to_string() }
    }
}

/// `compiler::compile_file` exactly as the entry points call it, with an
/// explicit option set; dialect detected from the text by the harness caller
/// (passed in), so that this wrapper has no option derivation of its own.
pub fn modern_compile(text: &str, dialect: AcceptedDialect, o: &ModernOpts) -> Result<Compiled, CErr> {
    let text = text.to_string();
    let o = o.clone();
    let r = catch(std::panic::AssertUnwindSafe(move || {
        let mut a = Allocator::new();
        let runner: Rc<dyn TRunProgram> = Rc::new(DefaultProgramRunner::new());
        let opts: Rc<dyn CompilerOpts> = Rc::new(DefaultCompilerOpts::new(&o.filename));
        let opts = opts.set_dialect(dialect.clone()).set_optimize(o.optimize).set_frontend_opt(o.frontend_opt).set_search_paths(&o.search);
        let mut syms = HashMap::new();
        let compiled = compile_file(&mut a, runner.clone(), opts.clone(), &text, &mut syms).and_then(|s| {
            if o.post_opt {
                chialisp::compiler::optimize::maybe_finalize_program_via_classic_optimizer(&mut a, runner.clone(), opts.clone(), true, &s).map(|r| {
                    let b: &SExp = std::borrow::Borrow::borrow(&r);
                    b.clone()
                })
            } else {
                Ok(s)
            }
        });
        match compiled {
            Ok(s) => {
                // convert under the dialect's integer mode, as every entry point does
                let _g = NewStyleIntConversion::new(dialect.int_fix);
                let txt = s.to_string();
                match from_sexp(Rc::new(s)) {
                    Ok(code) => Ok(Compiled { code, text: txt, symbols: syms }),
                    Err(e) => Err(CErr::Err("convert".to_string(), e)),
                }
            }
            Err(CompileErr(l, m)) => Err(CErr::Err(l.to_string(), m)),
        }
    }));
    match r {
        Ok(x) => x,
        Err(p) => Err(CErr::Panic(p)),
    }
}

/// The library entry point used by the Python/JS bindings and file-to-file
/// compilation (`compile_clvm_text`), classic or modern depending on the sigil.
pub fn library_compile(text: &str, search: &[String], do_optimize: bool) -> Result<Compiled, CErr> {
    let text = text.to_string();
    let search = search.to_vec();
    let r = catch(std::panic::AssertUnwindSafe(move || {
        let mut a = Allocator::new();
        let opts: Rc<dyn CompilerOpts> = Rc::new(DefaultCompilerOpts::new("*verif*"));
        let opts = opts.set_search_paths(&search);
        let mut syms = HashMap::new();
        match compile_clvm_text_maybe_opt(&mut a, do_optimize, opts.clone(), &mut syms, &text, "*verif*", false) {
            Ok(n) => Ok(Compiled { code: T::from_node(&a, n), text: String::new(), symbols: syms }),
            Err(e) => Err(CErr::Err("".to_string(), e.format(&a, opts))),
        }
    }));
    match r {
        Ok(x) => x,
        Err(p) => Err(CErr::Panic(p)),
    }
}

pub fn detect_dialect(text: &str) -> Option<AcceptedDialect> {
    use chialisp::classic::clvm_tools::binutils::assemble_from_ir;
    use chialisp::classic::clvm_tools::ir::reader::read_ir;
    use chialisp::compiler::dialect::detect_modern;
    let mut a = Allocator::new();
    let ir = read_ir(text).ok()?;
    let n = assemble_from_ir(&mut a, Rc::new(ir)).ok()?;
    Some(detect_modern(&mut a, n))
}

pub fn assemble(text: &str) -> Result<T, String> {
    let text = text.to_string();
    match catch(move || {
        let mut a = Allocator::new();
        binutils::assemble(&mut a, &text).map(|n| T::from_node(&a, n)).map_err(|e| format!("{}", e))
    }) {
        Ok(r) => r,
        Err(p) => Err(format!("PANIC: {}", p)),
    }
}

pub fn disassemble(t: &T, ver: Option<usize>) -> Result<String, String> {
    let t = t.clone();
    catch(move || {
        let mut a = Allocator::new();
        let n = t.to_node(&mut a);
        binutils::disassemble(&a, n, ver)
    })
    .map_err(|p| format!("PANIC: {}", p))
}

/// `DefaultProgramRunner` (the evaluator the tools run programs with).
pub fn tool_runner(prog: &T, env: &T, operators_version: usize) -> Out {
    use chialisp::classic::clvm_tools::stages::stage_0::RunProgramOption;
    let mut a = Allocator::new();
    let p = prog.to_node(&mut a);
    let e = env.to_node(&mut a);
    let r = DefaultProgramRunner::new().run_program(
        &mut a,
        p,
        e,
        Some(RunProgramOption { max_cost: Some(crate::oracle::MAX_COST), pre_eval_f: None, strict: true, operators_version }),
    );
    match r {
        Ok(r) => Out::Val(T::from_node(&a, r.1)),
        Err(clvmr::error::EvalErr::CostExceeded) => Out::Limit,
        Err(e) => Out::Err(format!("{}", e)),
    }
}
